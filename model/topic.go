// Package model holds the small reference models used as oracles. They are written from the MQTT
// specification and the property statements, not from gmqtt's code.
package model

import "strings"

// Match reports whether topic filter f matches topic name t under MQTT 4.7 (both assumed valid).
func Match(f, t string) bool {
	fl := strings.Split(f, "/")
	tl := strings.Split(t, "/")
	// 4.7.2: a filter starting with a wildcard does not match topic names beginning with '$'
	if len(t) > 0 && t[0] == '$' && len(fl) > 0 && (fl[0] == "#" || fl[0] == "+") {
		return false
	}
	for i, lv := range fl {
		if lv == "#" {
			return true // also the parent level: "a/#" matches "a"
		}
		if i >= len(tl) {
			return false
		}
		if lv != "+" && lv != tl[i] {
			return false
		}
	}
	return len(fl) == len(tl)
}

// ValidFilter reports whether f is a valid topic filter (4.7.1): non-empty, '#' only as the last
// level on its own, '+' only as a whole level.
func ValidFilter(f string) bool {
	if f == "" {
		return false
	}
	ls := strings.Split(f, "/")
	for i, l := range ls {
		if strings.Contains(l, "#") && (l != "#" || i != len(ls)-1) {
			return false
		}
		if strings.Contains(l, "+") && l != "+" {
			return false
		}
	}
	return true
}

// ValidName reports whether t is a valid topic name: non-empty, no wildcards.
func ValidName(t string) bool {
	return t != "" && !strings.ContainsAny(t, "#+")
}

// SplitShare splits "$share/<group>/<filter>".
func SplitShare(f string) (share, filter string) {
	if strings.HasPrefix(f, "$share/") {
		rest := f[len("$share/"):]
		if i := strings.IndexByte(rest, '/'); i >= 0 {
			return rest[:i], rest[i+1:]
		}
	}
	return "", f
}

// Span is the [invoke, response] interval of an operation in scheduler steps.
type Span struct{ Inv, Resp int }

// Before reports that a definitely happened before b.
func (a Span) Before(b Span) bool { return a.Resp >= 0 && a.Resp < b.Inv }

// Change is one establish (On=true) or revoke (On=false) operation on a key, with a payload.
type Change struct {
	Span
	On  bool
	Val any
}

// State3 is a three-valued answer.
type State3 int

const (
	No State3 = iota
	May
	Must
)

// Holds evaluates "the key is established" during window q, given all changes to the key.
// Must: some establishing change completed before q began and no revoking change could have taken
// effect after it and before q ended. No: every establishing change that could have taken effect
// before q ended was definitely followed by a revoke that completed before q began (or there is
// none). Otherwise May. It also returns the values of all establishing changes that could be the one
// in force during q.
func Holds(chs []Change, q Span) (State3, []any) {
	var vals []any
	must := false
	may := false
	for i, a := range chs {
		if !a.On || a.Inv < 0 || a.Inv > q.Resp && q.Resp >= 0 {
			continue
		}
		// could a be in force at some point of q?
		revokedBefore := false
		for j, b := range chs {
			if i == j || b.On || b.Inv < 0 {
				continue
			}
			if a.Before(b.Span) && b.Before(q) {
				// definitely revoked before q ... unless re-established (another a' handles that)
				revokedBefore = true
			}
		}
		// a later establishing change that definitely precedes q supersedes a's value
		superseded := false
		for j, a2 := range chs {
			if i == j || !a2.On || a2.Inv < 0 {
				continue
			}
			if a.Before(a2.Span) && a2.Before(q) {
				superseded = true
			}
		}
		if revokedBefore {
			continue
		}
		may = true
		if !superseded {
			vals = append(vals, a.Val)
		}
		// definitely in force during all of q?
		if a.Before(q) {
			safe := true
			for j, b := range chs {
				if i == j || b.On || b.Inv < 0 {
					continue
				}
				// a revoke that is not definitely before a and not definitely after q may interfere
				if !b.Before(a.Span) && !(q.Resp >= 0 && q.Resp < b.Inv) {
					safe = false
				}
			}
			if safe {
				must = true
			}
		}
	}
	if must {
		return Must, vals
	}
	if may {
		return May, vals
	}
	return No, nil
}
