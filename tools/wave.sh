#!/bin/bash
# tools/wave.sh <wt dir> <props...> : confirm every sub-agent change under <wt>/<prop>.out/m* in a scratch worktree,
# then run the property's quick check against each confirmed one (results in <wt>/confirm.jsonl, <wt>/eval.jsonl).
WT=$1; shift
cd ${EVAL_VERIF:-/verif}
for p in "$@"; do
  for d in $WT/$p.out/m*; do
    [ -f $d/patch.diff ] || continue
    grep -q "\"$d\"" $WT/confirm.jsonl 2>/dev/null && continue
    tools/confirm_mutant.sh $d $WT/confirm.wt.$$ >> $WT/confirm.jsonl
    tail -1 $WT/confirm.jsonl
  done
done
for p in "$@"; do
  for d in $WT/$p.out/m*; do
    grep "\"$d\"" $WT/confirm.jsonl | grep -q '"demo_fails_with":true,"demo_passes_without":true,"suite_ok":true' || continue
    grep -q "\"$d\"" $WT/eval.jsonl 2>/dev/null && continue
    tools/eval_mutants.sh $WT/eval.jsonl quick $d
    tail -1 $WT/eval.jsonl | cut -c1-400
  done
done
