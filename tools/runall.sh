#!/bin/bash
# tools/runall.sh [budget_s] [tier] — runs every claimed check once and summarises
cd /verif
B=${1:-20}; T=${2:-quick}
for id in $(python3 -c "import json;print(' '.join(c['property_id'] for c in json.load(open('MANIFEST.json'))['checks']))"); do
  VERIF_BUDGET_S=$B bin/check $id $T > .work/runall.$id.out 2>&1; rc=$?
  echo "$id rc=$rc $(tail -1 .work/runall.$id.out | cut -c1-200)"
  grep -h "^VIOLATION\|^KNOWN" .work/runall.$id.out | cut -c1-200
done
