#!/bin/bash
# tools/coverage.sh [seconds per property] [tier] [props...]
# Statement coverage of gmqtt's own packages under the simulated runs of each check (reach measure, not a check).
# `go build -cover` ignores -overlay for the covered packages, so the instrumented sources are materialised in a
# scratch copy of /repo (outside /repo and /verif), the checks binary is built against it with -cover, every
# property's workload is run for a while, and the profiles are summarised per property and in total into
# .work/coverage/ (uncovered functions and blocks of the property's anchored files, with source text).
# The scratch copy is removed at the end.
cd "$(dirname "$0")/.." || exit 2
export GOFLAGS=-mod=mod GOPROXY=off GOSUMDB=off GOTOOLCHAIN=local
S=${1:-30}; TIER=${2:-quick}; shift 2 2>/dev/null
PROPS="$*"; [ -z "$PROPS" ] && PROPS=$(python3 -c "import json;print(' '.join(c['property_id'] for c in json.load(open('MANIFEST.json'))['checks']))")
bin/build || exit 2
SC=$(mktemp -d /tmp/vcov.XXXXXX)
[ -z "$VERIF_COV_KEEP" ] && trap 'rm -rf "$SC"' EXIT; echo scratch $SC
rsync -a --exclude .git /repo/ "$SC/repo/"
python3 - "$SC" <<'EOF'
import json,sys,shutil,os
sc=sys.argv[1]
for k,v in json.load(open('.work/ov/overlay.json'))['Replace'].items():
    assert k.startswith('/repo/')
    dst=os.path.join(sc,'repo',k[len('/repo/'):])
    shutil.copyfile(v,dst)
src=open('go.mod').read().replace('=> /repo','=> '+sc+'/repo')
open(os.path.join(sc,'go.mod'),'w').write(src)
shutil.copyfile('go.sum',os.path.join(sc,'go.sum'))
EOF
go1.26.8 test -c -cover -coverpkg=github.com/DrmagicE/gmqtt/... -modfile="$SC/go.mod" -o "$SC/checks.cover.test" ./checks || exit 2
mkdir -p .work/coverage; rm -f .work/coverage/*
W=$(( $(nproc) / 2 )); n=0
worker() { # id w : runs batches until the budget is used; a worker that asks for a fresh process (exit 3) is continued
  local id=$1 w=$2 from=$2 t0=$(date +%s) rem rc last
  mkdir -p "$SC/cd.$id.$w"
  while :; do
    rem=$(( S - ($(date +%s) - t0) )); [ $rem -le 0 ] && break
    VERIF_ROOT=$PWD VERIF_MODE=batch VERIF_PROP=$id VERIF_SEED=${VERIF_SEED:-1} VERIF_TIER=$TIER VERIF_FROM=$from VERIF_TO=100000000 VERIF_STRIDE=2 \
      VERIF_BUDGET_S=$rem VERIF_OUT=$SC/$id.$w.jsonl GOCOVERDIR="$SC/cd.$id.$w" "$SC/checks.cover.test" -test.run '^TestWorker$' -test.timeout 0 \
      -test.gocoverdir="$SC/cd.$id.$w" >> "$SC/$id.$w.out" 2>&1; rc=$?
    [ $rc != 3 ] && break
    last=$(tail -1 "$SC/$id.$w.jsonl" | python3 -c "import sys,json; print(json.loads(sys.stdin.read())['Idx'])" 2>/dev/null) || break
    from=$((last+2))
  done
  go1.26.8 tool covdata textfmt -i="$SC/cd.$id.$w" -o "$SC/$id.$w.cov" 2>> "$SC/$id.$w.out"
}
for id in $PROPS; do
  for w in 0 1; do worker $id $w & done
  n=$((n+1)); if [ $((n % W)) = 0 ]; then wait; fi
done
wait
python3 tools/coverage_report.py "$SC" $PROPS
