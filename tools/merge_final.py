#!/usr/bin/env python3
"""tools/merge_final.py <final.jsonl>: records the final evaluation runs (tools/eval_mutants.sh in the isolated copy)
in seeded/<id>/meta.json: final_runs (list), caught_by (checks that reported the change)."""
import json, sys, os, collections
runs = collections.OrderedDict()
for l in open(sys.argv[1]):
    try: r = json.loads(l)
    except Exception: continue
    sid = os.path.basename(r['dir'].rstrip('/'))
    runs.setdefault(sid, []).append(r)
for sid, rs in runs.items():
    p = f'/verif/seeded/{sid}/meta.json'
    if not os.path.exists(p): continue
    m = json.load(open(p))
    fr = []
    for r in rs:
        fr.append({'check': r.get('property'), 'tier': r.get('tier', 'quick'), 'exit': r.get('exit'), 'violation_groups': r.get('violations'),
                   'first': r.get('first'), 'summary': r.get('summary'), 'error': r.get('error')})
    m['final_runs'] = fr
    m['final_runs_note'] = 'checks as committed at the end of session 3, run in an isolated copy of /verif and /repo (EVAL_REPO / EVAL_VERIF), patch applied to the copy of /repo HEAD'
    m['caught_by'] = sorted({f"{x['check']}/{x['tier']}" for x in fr if x.get('exit') == 1})
    json.dump(m, open(p, 'w'), indent=1, ensure_ascii=False)
print(len(runs), 'changes updated')
