#!/usr/bin/env python3
# tools/coverage_report.py <scratch dir> <props...>: summarises the cover profiles written by tools/coverage.sh
import sys, os, re, json, glob, collections

sc = sys.argv[1]
props = sys.argv[2:]
PFX = 'github.com/DrmagicE/gmqtt/'
anchors = {}
for l in open('properties.jsonl'):
    d = json.loads(l)
    anchors[d['id']] = d['anchors']['files']


def load(paths):
    blocks = {}
    for p in paths:
        if not os.path.exists(p):
            continue
        for l in open(p):
            if l.startswith('mode:'):
                continue
            m = re.match(r'(.*):(\d+)\.(\d+),(\d+)\.(\d+) (\d+) (\d+)$', l.strip())
            if not m:
                continue
            f = m.group(1)
            if not f.startswith(PFX):
                continue
            key = (f[len(PFX):], int(m.group(2)), int(m.group(3)), int(m.group(4)), int(m.group(5)), int(m.group(6)))
            blocks[key] = max(blocks.get(key, 0), int(m.group(7)))
    return blocks


srcs = {}


def src(f):
    if f not in srcs:
        try:
            srcs[f] = open(os.path.join(sc, 'repo', f)).read().split('\n')
        except OSError:
            srcs[f] = []
    return srcs[f]


def funcs(f):
    out = []
    for i, l in enumerate(src(f)):
        m = re.match(r'func (\([^)]*\) )?([A-Za-z0-9_]+)', l)
        if m:
            recv = re.sub(r'[()*]|^\w+ ', '', (m.group(1) or '').strip()).strip()
            out.append((i + 1, (recv + '.' if recv else '') + m.group(2)))
    return out


def enclosing(f, line):
    name = '?'
    for ln, n in funcs(f):
        if ln <= line:
            name = n
        else:
            break
    return name


def summarise(blocks, files=None):
    per = collections.OrderedDict()
    for (f, sl, sc_, el, ec, n), c in sorted(blocks.items()):
        if files is not None and f not in files:
            continue
        if f.endswith('.pb.go') or f.endswith('.pb.gw.go') or f.endswith('_mock.go') or 'zz_verif' in f:
            continue
        t = per.setdefault(f, [0, 0])
        t[1] += n
        if c > 0:
            t[0] += n
    return per


def uncovered(blocks, files):
    out = collections.OrderedDict()
    for (f, sl, sc_, el, ec, n), c in sorted(blocks.items()):
        if f not in files or c > 0 or 'zz_verif' in f:
            continue
        fn = enclosing(f, sl)
        text = ' | '.join(x.strip() for x in src(f)[sl - 1:min(el, sl + 3)])[:200]
        out.setdefault((f, fn), []).append((sl, n, text))
    return out


os.makedirs('.work/coverage', exist_ok=True)
allb = {}
summary = []
for p in props:
    b = load(glob.glob(os.path.join(sc, p + '.*.cov')))
    for k, v in b.items():
        allb[k] = max(allb.get(k, 0), v)
    runs = sum(1 for f in glob.glob(os.path.join(sc, p + '.*.jsonl')) for _ in open(f))
    files = set(anchors.get(p, []))
    per = summarise(b, files)
    tot = [sum(x[0] for x in per.values()), sum(x[1] for x in per.values())]
    summary.append('%s runs=%d anchored-files stmt coverage %d/%d = %.1f%%' % (p, runs, tot[0], tot[1], 100.0 * tot[0] / max(1, tot[1])))
    with open('.work/coverage/%s.txt' % p, 'w') as o:
        o.write(summary[-1] + '\n')
        for f, (c, t) in per.items():
            o.write('  %-55s %4d/%4d %.0f%%\n' % (f, c, t, 100.0 * c / max(1, t)))
        o.write('\nuncovered blocks in anchored files (line numbers of the instrumented copy):\n')
        for (f, fn), bl in uncovered(b, files).items():
            o.write('%s  %s\n' % (f, fn))
            for sl, n, text in bl:
                o.write('    %5d (%d) %s\n' % (sl, n, text))
per = summarise(allb)
with open('.work/coverage/ALL.txt', 'w') as o:
    for f, (c, t) in per.items():
        o.write('%-60s %4d/%4d %.0f%%\n' % (f, c, t, 100.0 * c / max(1, t)))
    o.write('\nuncovered by every check:\n')
    files = set(per.keys())
    for (f, fn), bl in uncovered(allb, files).items():
        o.write('%s  %s\n' % (f, fn))
        for sl, n, text in bl:
            o.write('    %5d (%d) %s\n' % (sl, n, text))
open('.work/coverage/summary.txt', 'w').write('\n'.join(summary) + '\n')
print('\n'.join(summary))
