#!/usr/bin/env python3
"""Prints the markdown table of /verif/seeded/*: which check caught which sub-agent change."""
import json,glob,os
rows=[]
for d in sorted(glob.glob('/verif/seeded/*/')):
    try: m=json.load(open(d+'meta.json'))
    except Exception: continue
    runs=m.get('final_runs') or m.get('check_runs') or []
    runs=[r for r in runs if r.get('exit') in (0,1)]
    caught=sorted({r['check']+' '+(r.get('tier') or '') for r in runs if r.get('exit')==1})
    missed=sorted({r['check']+' '+(r.get('tier') or '') for r in runs if r.get('exit')==0} - set(caught))
    first=''
    for r in runs:
        if r.get('exit')==1 and r.get('first'):
            first=r['first'].split(' in ')[0].replace('clause ','')
    verdict=('caught by '+', '.join(caught)) if caught else ('MISSED ('+', '.join(missed)+')' if missed else 'not run')
    note=m.get('verdict_note','')
    rows.append((m.get('id'), (m.get('title') or '')[:90], ', '.join(m.get('files') or ([m['file']] if m.get('file') else []))[:60], (m.get('needs') or '')[:110], verdict+(' — '+note if note else ''), first[:70]))
print('| id | change | file | needs | verdict | first violation |')
print('|---|---|---|---|---|---|')
for r in rows: print('| '+' | '.join(x.replace('|','/').replace('\n',' ') for x in r)+' |')
