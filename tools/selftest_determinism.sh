#!/bin/bash
# tools/selftest_determinism.sh [N=40] [props...] — same seeds in several fresh processes at different
# GOMAXPROCS; every event-log hash must agree.
cd /verif
N=${1:-40}; shift
PROPS=${@:-$(python3 -c "import json;print(' '.join(c['property_id'] for c in json.load(open('MANIFEST.json'))['checks']))")}
bin/build || exit 2
mkdir -p .work/det
rc=0
for p in $PROPS; do
  i=0
  for gmp in 1 1 4 4 16 16; do
    i=$((i+1))
    GOMAXPROCS=$gmp VERIF_MODE=detlog VERIF_PROP=$p VERIF_SEED=${VERIF_SEED:-7} VERIF_FROM=0 VERIF_TO=$N VERIF_TIER=quick .work/checks.test -test.run '^TestWorker$' 2>/dev/null | grep '^DET' > .work/det/$p.$i &
  done
  wait
  ok=1
  for i in 2 3 4 5 6; do cmp -s .work/det/$p.1 .work/det/$p.$i || ok=0; done
  n=$(wc -l < .work/det/$p.1)
  if [ $ok = 1 ] && [ "$n" = "$N" ]; then echo "$p deterministic: $n seeds x 6 processes (GOMAXPROCS 1,4,16) identical"; else echo "$p NONDETERMINISTIC or incomplete ($n lines)"; diff .work/det/$p.1 .work/det/$p.5 | head -5; rc=1; fi
done
exit $rc
