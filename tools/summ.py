import json, collections, sys
n=0; sig=collections.Counter(); ex={}
for l in open(sys.argv[1] if len(sys.argv)>1 else '/verif/.work/t.jsonl'):
    r=json.loads(l); n+=1
    if r.get('Inconcl'): sig['INCONCL '+r['Inconcl']]+=1
    if r.get('Leaked'): sig['LEAKED']+=1
    for v in r.get('Viol',[]):
        k='|'.join(v.split('|')[:2]); sig[k]+=1
        if k not in ex or r['Ops']<ex[k][1]: ex[k]=(r['Idx'],r['Ops'],v[:500].replace('\n',' '))
print(n, dict(sig))
for k,v in ex.items(): print(k, v)
