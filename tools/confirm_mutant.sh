#!/bin/bash
# tools/confirm_mutant.sh <dir with patch.diff demo_test.go meta.json> <scratch worktree> -> prints a JSON line
# Confirms in a scratch worktree of /repo HEAD: patch applies, builds, demo fails with patch / passes without,
# existing tests of the whole module pass with the patch (apart from the baseline redis failures).
export GOFLAGS=-mod=mod GOPROXY=off GOSUMDB=off GOTOOLCHAIN=local
d=$1; wt=$2
git -C /repo worktree add --detach "$wt" HEAD >/dev/null 2>&1 || { echo "{\"dir\":\"$d\",\"error\":\"worktree\"}"; exit 1; }
cd "$wt" || exit 1
place=$(head -1 "$d/demo_test.go" | sed -n 's/.*place in: *\([^ ]*\).*/\1/p'); place=${place%/}
[ -z "$place" ] && place=server
name=zz_demo_$(basename "$d")_test.go
res() { echo "{\"dir\":\"$d\",\"place\":\"$place\",\"applies\":$1,\"builds\":$2,\"demo_fails_with\":$3,\"demo_passes_without\":$4,\"suite_ok\":$5,\"suite_fail\":\"$6\"}"; }
cp "$d/demo_test.go" "$place/$name"
tests=$(grep -oE "^func (Test[A-Za-z0-9_]+)" "$d/demo_test.go" | awk '{print $2}' | paste -sd'|')
go1.26.8 test -vet=off -count=1 -run "^($tests)\$" ./$place/ > /tmp/confirm.$$.clean 2>&1; clean=$?
pf="$d/patch.diff"; [ -f "$d/patch.ported.diff" ] && pf="$d/patch.ported.diff"; if ! git apply "$pf" 2>/dev/null; then rm -f "$place/$name"; cd /; git -C /repo worktree remove --force "$wt"; res false false false $([ $clean = 0 ] && echo true || echo false) false ""; exit 0; fi
if ! go1.26.8 build ./... >/dev/null 2>&1; then cd /; git -C /repo worktree remove --force "$wt"; res true false false false false ""; exit 0; fi
go1.26.8 test -vet=off -count=1 -run "^($tests)\$" ./$place/ > /tmp/confirm.$$.mut 2>&1; mut=$?
rm -f "$place/$name"
fails=$(go1.26.8 test -vet=off -count=1 ./... 2>&1 | grep -E "^(FAIL|---) " | grep -v "TestRedis" | grep -E "^FAIL" | awk '{print $2}' | grep -v "^github.com/DrmagicE/gmqtt/persistence$" | tr '\n' ' ')
cd /; git -C /repo worktree remove --force "$wt" >/dev/null 2>&1
res true true $([ $mut != 0 ] && echo true || echo false) $([ $clean = 0 ] && echo true || echo false) $([ -z "$fails" ] && echo true || echo false) "$fails"
rm -f /tmp/confirm.$$.*
