#!/bin/bash
# tools/thorough_all.sh [budget_s] [seed] — every claimed check's thorough tier once (for vp run); prints one line per check
B=${1:-600}; S=${2:-7}
bin/setup >/dev/null 2>&1 || exit 2
for id in $(python3 -c "import json;print(' '.join(c['property_id'] for c in json.load(open('MANIFEST.json'))['checks']))"); do
  VERIF_SEED=$S VERIF_BUDGET_S=$B bin/check $id thorough > thorough.$id.out 2>&1; rc=$?
  echo "$id rc=$rc $(tail -1 thorough.$id.out | cut -c1-220)"
  grep -a "^VIOLATION\|^  clause" thorough.$id.out | cut -c1-400
done
