#!/usr/bin/env python3
"""Assemble /verif/seeded/<id>/ from the sub-agents' output dirs, my confirmation runs and the check verdicts.
usage: collect_seeded.py  (reads /tmp/wt/*.out/m*, /tmp/wt/confirm*.jsonl, /tmp/wt/eval*.jsonl)"""
import json,glob,os,shutil,sys
WT=os.environ.get('WT','/tmp/wt'); OFF=int(os.environ.get('OFFSET','0'))
conf={}
for f in sorted(glob.glob(WT+'/confirm*.jsonl')):
    for l in open(f):
        try: r=json.loads(l)
        except: continue
        conf[r['dir']]=r
ev={}
for f in sorted(glob.glob(WT+'/eval*.jsonl')):
    for l in open(f):
        try: r=json.loads(l)
        except: continue
        ev.setdefault(r['dir'],[]).append(r)
for d in sorted(glob.glob(WT+'/C*.out/m*')):
    prop=os.path.basename(os.path.dirname(d))[:3]; k=os.path.basename(d)
    sid=f'{prop}-m{int(k[1:])+OFF}'
    c=conf.get(d)
    if not c or not (c.get('applies') and c.get('builds') and c.get('demo_fails_with') and c.get('demo_passes_without') and c.get('suite_ok')):
        print('skip (not confirmed):',sid,c); continue
    out=f'/verif/seeded/{sid}'
    os.makedirs(out,exist_ok=True)
    for fn in ('patch.diff','demo_test.go'):
        shutil.copy(os.path.join(d,fn),os.path.join(out,fn))
    ported=os.path.exists(os.path.join(d,'patch.ported.diff'))
    if ported:
        shutil.copy(os.path.join(d,'patch.ported.diff'),os.path.join(out,'patch.ported.diff'))
    try: meta=json.load(open(os.path.join(d,'meta.json')))
    except Exception: meta={}
    meta['id']=sid
    meta['origin']='written by a fresh sub-agent that saw only the property text and a scratch worktree of /repo'
    if ported:
        meta['ported']='patch.diff no longer applies after later fix: commits to the same lines; patch.ported.diff is the same change on the current tree and is what was confirmed and run'
    meta['confirmed']={'applies_to_repo_head':True,'builds':True,'existing_suite_passes_with_patch':True,'demo_fails_with_patch':True,'demo_passes_without_patch':True,'how':'tools/confirm_mutant.sh in a scratch worktree of /repo HEAD'}
    runs=[]
    for r in ev.get(d,[]):
        runs.append({'check':r['property'],'tier':r.get('tier'),'exit':r.get('exit'),'violation_groups':r.get('violations'),'first':r.get('first'),'summary':r.get('summary')})
    # keep verdicts recorded earlier
    old={}
    if os.path.exists(os.path.join(out,'meta.json')):
        try: old=json.load(open(os.path.join(out,'meta.json')))
        except Exception: old={}
    allruns=(old.get('check_runs') or [])
    for r in runs:
        if r not in allruns: allruns.append(r)
    meta['check_runs']=allruns
    meta['caught_by']=sorted({r['check']+'/'+(r['tier'] or '') for r in allruns if r.get('exit')==1})
    json.dump(meta,open(os.path.join(out,'meta.json'),'w'),indent=1,ensure_ascii=False)
    print(sid,'caught_by',meta['caught_by'])
