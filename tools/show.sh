#!/bin/bash
# tools/show.sh <substring of violation> [grep pattern]  — dump the smallest run in .work/t.jsonl with that violation
cd /verif
idx=$(python3 - "$1" <<'PY'
import json,sys
best=None
for l in open('/verif/.work/t.jsonl'):
    r=json.loads(l)
    if r.get('ViolFile') and any(sys.argv[1] in v for v in r['Viol']):
        if best is None or r['Ops']<best[1]: best=(r['Idx'],r['Ops'],r['ViolFile'])
print(best[2] if best else '')
PY
)
echo "file: $idx"
[ -z "$idx" ] && exit 1
VERIF_MODE=replay VERIF_DUMP=1 VERIF_FILE=$idx .work/checks.test -test.run TestWorker 2>&1 | grep -v "^PASS" | grep -v " kick" | grep -E "${2:-.}"
