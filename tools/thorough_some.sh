#!/bin/bash
# tools/thorough_some.sh <budget_s> <seed> <props...>
B=$1; S=$2; shift 2
bin/setup >/dev/null 2>&1 || exit 2
for id in "$@"; do
  VERIF_SEED=$S VERIF_BUDGET_S=$B bin/check $id thorough > thorough.$id.out 2>&1; rc=$?
  echo "$id rc=$rc $(tail -1 thorough.$id.out | cut -c1-220)"
  grep -a "^VIOLATION\|^  clause" thorough.$id.out | cut -c1-400
done
