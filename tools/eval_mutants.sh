#!/bin/bash
# tools/eval_mutants.sh <out.jsonl> <tier> <dir>...   — apply each mutant to /repo, run its property's check, undo.
out=$1; tier=$2; shift 2
cd ${EVAL_VERIF:-/verif}
for arg in "$@"; do
  d=${arg%%:*}; over=""; [ "$arg" != "$d" ] && over=${arg##*:}
  patch="$d/patch.diff"; [ -f "$d/patch.ported.diff" ] && patch="$d/patch.ported.diff"
  id=$(python3 -c "import json,sys; print(json.load(open('$d/meta.json'))['property'])" 2>/dev/null)
  [ -z "$id" ] && id=$(basename $(dirname $d) | cut -c1-3)
  [ -n "$over" ] && id=$over
  if ! git -C ${EVAL_REPO:-/repo} apply --check "$patch" 2>/dev/null; then echo "{\"dir\":\"$d\",\"property\":\"$id\",\"error\":\"patch does not apply\"}" >> $out; continue; fi
  git -C ${EVAL_REPO:-/repo} apply "$patch"
  t0=$(date +%s)
  bin/check $id $tier > /tmp/eval.$$.out 2>&1; rc=$?
  t1=$(date +%s)
  git -C ${EVAL_REPO:-/repo} checkout -- .
  viol=$(grep -c "^VIOLATION" /tmp/eval.$$.out)
  first=$(grep -m1 -A1 "^VIOLATION" /tmp/eval.$$.out | tail -1 | cut -c1-400 | python3 -c "import sys,json; print(json.dumps(sys.stdin.read().strip()))")
  summary=$(tail -1 /tmp/eval.$$.out | python3 -c "import sys,json; print(json.dumps(sys.stdin.read().strip()[:300]))")
  echo "{\"dir\":\"$d\",\"property\":\"$id\",\"tier\":\"$tier\",\"exit\":$rc,\"violations\":$viol,\"first\":$first,\"summary\":$summary,\"secs\":$((t1-t0))}" >> $out
  mkdir -p /tmp/wt/evalout; cp /tmp/eval.$$.out /tmp/wt/evalout/$(basename $(dirname $d))-$(basename $d).$tier.out
done
rm -f /tmp/eval.$$.out
