// Package simfs confines the auth plugin's file operations to a per-run sandbox and injects faults.
package simfs

import (
	"errors"
	"io/ioutil"
	"os"
	"path/filepath"
	"sync"
)

// FS is the sandbox state of one run.
type FS struct {
	mu       sync.Mutex
	Root     string // sandbox directory; relative paths resolve against Cwd inside it
	Cwd      string // simulated working directory (absolute, inside Root)
	Ops      int
	FailAt   map[int]bool // op numbers (1-based) that fail
	CrashAt  int          // op number at which the "process dies": this and all later ops fail
	OpLog    []string
	Failures int
}

var (
	gmu sync.Mutex
	cur *FS
)

// Install sets the sandbox for the current run (nil = pass-through).
//
//go:norace
func Install(f *FS) {
	gmu.Lock()
	cur = f
	gmu.Unlock()
}

//go:norace
func active() *FS {
	gmu.Lock()
	defer gmu.Unlock()
	return cur
}

// ErrInjected is the injected I/O error.
var ErrInjected = errors.New("simfs: injected I/O error")

//go:norace
func (f *FS) resolve(p string) string {
	if filepath.IsAbs(p) {
		return filepath.Join(f.Root, p)
	}
	return filepath.Join(f.Root, f.Cwd, p)
}

// Resolve maps a path as the SUT sees it to the real sandbox path.
//
//go:norace
func (f *FS) Resolve(p string) string { return f.resolve(p) }

//go:norace
func (f *FS) step(op string) error {
	f.mu.Lock()
	defer f.mu.Unlock()
	f.Ops++
	f.OpLog = append(f.OpLog, op)
	if f.CrashAt > 0 && f.Ops >= f.CrashAt {
		f.Failures++
		return ErrInjected
	}
	if f.FailAt[f.Ops] {
		f.Failures++
		return ErrInjected
	}
	return nil
}

// TempFile replaces ioutil.TempFile.
//
//go:norace
func TempFile(dir, pattern string) (*os.File, error) {
	f := active()
	if f == nil {
		return ioutil.TempFile(dir, pattern)
	}
	if err := f.step("tempfile " + dir + " " + pattern); err != nil {
		return nil, err
	}
	return ioutil.TempFile(f.resolve(dir), pattern)
}

// Rename replaces os.Rename. Names returned by TempFile are already real paths.
//
//go:norace
func Rename(oldp, newp string) error {
	f := active()
	if f == nil {
		return os.Rename(oldp, newp)
	}
	if err := f.step("rename " + newp); err != nil {
		return err
	}
	if !filepath.IsAbs(oldp) || !hasPrefix(oldp, f.Root) {
		oldp = f.resolve(oldp)
	}
	return os.Rename(oldp, f.resolve(newp))
}

//go:norace
func hasPrefix(p, root string) bool {
	r, err := filepath.Rel(root, p)
	return err == nil && len(r) > 0 && r[0] != '.'
}

// OpenFile replaces os.OpenFile.
//
//go:norace
func OpenFile(name string, flag int, perm os.FileMode) (*os.File, error) {
	f := active()
	if f == nil {
		return os.OpenFile(name, flag, perm)
	}
	if err := f.step("open " + name); err != nil {
		return nil, err
	}
	return os.OpenFile(f.resolve(name), flag, perm)
}

// Remove replaces os.Remove.
//
//go:norace
func Remove(name string) error {
	f := active()
	if f == nil {
		return os.Remove(name)
	}
	if err := f.step("remove " + name); err != nil {
		return err
	}
	if filepath.IsAbs(name) && hasPrefix(name, f.Root) {
		return os.Remove(name)
	}
	return os.Remove(f.resolve(name))
}
