//go:build !race

package simrt

import "unsafe"

const RaceOn = false

func RaceDisable()                      {}
func RaceEnable()                       {}
func RaceAcquire(p unsafe.Pointer)      {}
func RaceRelease(p unsafe.Pointer)      {}
func RaceReleaseMerge(p unsafe.Pointer) {}
