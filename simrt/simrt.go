// Package simrt is the seeded cooperative scheduler of the simulator.
//
// Exactly one task of the system under test runs at any moment. A task stops at
// scheduling points (Yield, vsync operations, simulated I/O); the root goroutine
// (Loop) waits for quiescence with synctest.Wait, collects the runnable tasks and
// the due external events, and lets the choice source pick who continues.
package simrt

import (
	"bytes"
	"cmp"
	"fmt"
	"math/rand/v2"
	"runtime"
	"slices"
	"sort"
	"strconv"
	"sync"
	"sync/atomic"
	"testing/synctest"
	"time"
	"unsafe"
)

// Task is one goroutine of the system under test that the scheduler controls.
type Task struct {
	ID      int
	Name    string
	wake    chan struct{}
	done    bool
	Steps   int
	waiting string // what the task is blocked on (vsync / sim I/O), for deadlock reports
	excl    bool   // exclusive observer task
}

// Sched is the scheduler of one run.
type Sched struct {
	mu       sync.Mutex
	byGoid   map[uint64]*Task
	all      []*Task
	parked   []*Task // runnable
	nextID   int
	notify   chan struct{}
	cur      *Task
	sleepers atomic.Int64

	// choice source
	rng        *rand.Rand
	switchProb float64
	replay     []int32 // when non-nil: explicit choices (missing = 0)
	replayPos  int
	Trace      []int32 // choices taken (main loop)
	selRng     *rand.Rand
	intRng     *rand.Rand

	StepCnt   int
	Switches  int
	SchedLog  []string // when non-nil: one line per step (debugging the simulator itself)
	LogSched  bool
	Panics    []string
	poison    atomic.Bool
	uuidCtr   uint64
	EndHB     byte   // race detector: merged into by every task that ends
	rootGoid  uint64 // the goroutine that runs the simulator (Start, Loop, events)
	rootDepth int    // how many RaceDisable the root goroutine holds
	schedSig  uint64 // rolling hash of (task name) sequence: distinct-interleaving measure
	spin      map[string]int
}

var (
	gmu sync.Mutex
	g   *Sched
)

// Active returns the scheduler of the current run or nil (free mode).
//
//go:norace
func Active() *Sched {
	RaceDisable()
	defer RaceEnable()
	gmu.Lock()
	defer gmu.Unlock()
	return g
}

// Options configure a scheduler.
type Options struct {
	Seed       uint64
	SwitchProb float64
	Replay     []int32 // explicit main-loop choices; nil = draw from PRNG
}

// Start installs a new scheduler as the process-global active one.
//
//go:norace
func Start(o Options) *Sched {
	s := &Sched{byGoid: map[uint64]*Task{}, notify: make(chan struct{}, 1), spin: map[string]int{}}
	s.rng = rand.New(rand.NewPCG(o.Seed, 0x5eed0001))
	s.selRng = rand.New(rand.NewPCG(o.Seed, 0x5eed0002))
	s.intRng = rand.New(rand.NewPCG(o.Seed, 0x5eed0003))
	s.switchProb = o.SwitchProb
	if o.Replay != nil {
		s.replay = o.Replay
	}
	s.rootGoid = goid()
	s.rootDepth = 0
	gmu.Lock()
	g = s
	gmu.Unlock()
	return s
}

// Stop removes the active scheduler.
//
//go:norace
func Stop() {
	gmu.Lock()
	g = nil
	gmu.Unlock()
}

//go:norace
func goid() uint64 {
	var buf [64]byte
	n := runtime.Stack(buf[:], false)
	b := buf[:n]
	b = b[len("goroutine "):]
	i := bytes.IndexByte(b, ' ')
	v, _ := strconv.ParseUint(string(b[:i]), 10, 64)
	return v
}

// Cur returns the task of the calling goroutine, adopting it if unknown.
//
//go:norace
func (s *Sched) Cur() *Task {
	RaceDisable()
	defer RaceEnable()
	id := goid()
	s.mu.Lock()
	defer s.mu.Unlock()
	t := s.byGoid[id]
	if t == nil {
		t = &Task{ID: s.nextID, Name: "adopted", wake: make(chan struct{})}
		s.nextID++
		s.byGoid[id] = t
		s.all = append(s.all, t)
	}
	return t
}

//go:norace
func (s *Sched) ping() {
	select {
	case s.notify <- struct{}{}:
	default:
	}
}

//go:norace
func (s *Sched) checkPoison() {
	if s.poison.Load() {
		runtime.Goexit()
	}
}

// RootRaceDisable / RootRaceEnable are RaceDisable / RaceEnable for the root goroutine; the depth is counted
// so that Go can lift it for the instant of a go statement (a goroutine started while synchronisation events
// are ignored does not even inherit what happened before its creation, e.g. package initialisation).
//
//go:norace
func (s *Sched) RootRaceDisable() {
	RaceDisable()
	s.rootDepth++
}

//go:norace
func (s *Sched) RootRaceEnable() {
	s.rootDepth--
	RaceEnable()
}

// Go starts f as a managed task (rewritten `go` statements and harness API calls).
//
//go:norace
func Go(name string, f func()) *Task {
	s := Active()
	if s == nil {
		go f()
		return nil
	}
	return s.Go(name, f)
}

// Go starts f as a managed task of s.
//
//go:norace
func (s *Sched) Go(name string, f func()) *Task {
	RaceDisable()
	s.mu.Lock()
	t := &Task{ID: s.nextID, Name: name, wake: make(chan struct{})}
	s.nextID++
	s.all = append(s.all, t)
	s.mu.Unlock()
	RaceEnable()
	lift := 0
	if RaceOn && goid() == s.rootGoid {
		lift = s.rootDepth
	}
	for i := 0; i < lift; i++ {
		RaceEnable()
	}
	defer func() {
		for i := 0; i < lift; i++ {
			RaceDisable()
		}
	}()
	// the go statement itself stays visible to the race detector (parent happens-before child)
	go func() {
		RaceDisable()
		id := goid()
		s.mu.Lock()
		s.byGoid[id] = t
		s.parked = append(s.parked, t)
		s.mu.Unlock()
		defer func() {
			// everything a task did happens before whatever later acquires EndHB (a restarted process)
			RaceReleaseMerge(unsafe.Pointer(&s.EndHB))
			RaceDisable()
			s.mu.Lock()
			delete(s.byGoid, id)
			t.done = true
			s.mu.Unlock()
			s.ping()
			RaceEnable()
		}()
		s.ping()
		<-t.wake
		s.checkPoison()
		RaceEnable()
		f()
	}()
	return t
}

// GoExclusive starts an observer task: once chosen it keeps running until it ends or blocks.
//
//go:norace
func (s *Sched) GoExclusive(name string, f func()) *Task {
	t := s.Go(name, f)
	t.excl = true
	return t
}

// Yield is a scheduling point.
//
//go:norace
func Yield() {
	RaceDisable()
	defer RaceEnable()
	s := Active()
	if s == nil {
		return
	}
	if s.poison.Load() {
		return // teardown: let deferred code run through
	}
	t := s.Cur()
	s.mu.Lock()
	s.parked = append(s.parked, t)
	s.mu.Unlock()
	s.ping()
	<-t.wake
	s.checkPoison()
}

// Sleep parks the current task for d of simulated time (the simulator's services use it for latencies; the
// timer that wakes the task only makes it runnable, the scheduler still decides when it continues).
//
//go:norace
func Sleep(d time.Duration) {
	s := Active()
	if s == nil {
		time.Sleep(d)
		return
	}
	if d <= 0 || s.poison.Load() {
		Yield()
		return
	}
	t := s.Cur()
	s.sleepers.Add(1)
	time.AfterFunc(d, func() { s.sleepers.Add(-1); s.MakeRunnable(t) })
	s.Block(t, "sleep")
}

// Sleepers is the number of tasks inside Sleep (simulated I/O latency in progress): work that is neither
// runnable nor a simulator event, but will continue by itself.
//
//go:norace
func (s *Sched) Sleepers() int { return int(s.sleepers.Load()) }

// Block parks the current task without making it runnable. The caller has registered t
// somewhere from where MakeRunnable will be called.
//
//go:norace
func (s *Sched) Block(t *Task, what string) {
	RaceDisable()
	defer RaceEnable()
	if s.poison.Load() {
		runtime.Goexit()
	}
	t.waiting = what
	s.ping()
	<-t.wake
	t.waiting = ""
	s.checkPoison()
}

// MakeRunnable moves blocked tasks to the runnable set.
//
//go:norace
func (s *Sched) MakeRunnable(ts ...*Task) {
	RaceDisable()
	defer RaceEnable()
	if len(ts) == 0 {
		return
	}
	s.mu.Lock()
	s.parked = append(s.parked, ts...)
	s.mu.Unlock()
	s.ping()
}

// Poisoned reports teardown mode.
//
//go:norace
func (s *Sched) Poisoned() bool { return s.poison.Load() }

// NotePanic records a recovered panic (R7 probe).
//
//go:norace
func NotePanic(v any) {
	RaceDisable()
	defer RaceEnable()
	if v == nil {
		return
	}
	if s := Active(); s != nil {
		buf := make([]byte, 8192)
		n := runtime.Stack(buf, false)
		s.mu.Lock()
		s.Panics = append(s.Panics, fmt.Sprint(v)+"\n"+string(buf[:n]))
		s.mu.Unlock()
	}
}

// Event is an external action (simulator side) that is enabled now.
type Event struct {
	Seq  int
	Name string
	Run  func()
}

// Driver is the simulator side of a run.
type Driver interface {
	// Observe is called at each quiescent iteration before choosing (drain outputs, invariants).
	// A non-nil error ends the run.
	Observe(step int) error
	// Due returns the events enabled now (canonical order) and the time of the next future event (zero if none).
	Due(now time.Time) (due []*Event, next time.Time)
	// Done reports whether the run should end (asked when nothing is runnable and nothing is due).
	Done() bool
}

// ErrStepBudget is returned when a run exceeds its step bound.
var ErrStepBudget = fmt.Errorf("step budget exceeded")

// ErrIdle is returned when nothing happens for the idle horizon although the driver is not done.
var ErrIdle = fmt.Errorf("idle horizon reached without Done()")

//go:norace
func (s *Sched) choose(n int, curFirst bool) int {
	if n <= 1 {
		return 0
	}
	k := 0
	if s.replay != nil {
		if s.replayPos < len(s.replay) {
			k = int(s.replay[s.replayPos])
		}
		s.replayPos++
		if k >= n || k < 0 {
			k = 0
		}
	} else if curFirst && s.rng.Float64() >= s.switchProb {
		k = 0
	} else {
		k = s.rng.IntN(n)
	}
	s.Trace = append(s.Trace, int32(k))
	return k
}

// Loop runs the system until the driver is done, an invariant fails or a bound is hit.
//
//go:norace
func (s *Sched) Loop(d Driver, maxSteps int, idleHorizon time.Duration) error {
	s.RootRaceDisable()
	defer s.RootRaceEnable()
	for {
		synctest.Wait()
		s.mu.Lock()
		cands := s.parked
		s.parked = nil
		s.mu.Unlock()
		if err := d.Observe(s.StepCnt); err != nil {
			s.mu.Lock()
			s.parked = append(s.parked, cands...)
			s.mu.Unlock()
			return err
		}
		due, next := d.Due(time.Now())
		if len(cands) == 0 && len(due) == 0 {
			if d.Done() {
				return nil
			}
			// Done may have scheduled new work (next phase, final sequence)
			due, next = d.Due(time.Now())
			if len(due) > 0 {
				continue
			}
			wait := idleHorizon
			if !next.IsZero() {
				if u := time.Until(next); u < wait {
					wait = u
				}
			}
			s.mu.Lock()
			np := len(s.parked)
			s.mu.Unlock()
			if np > 0 {
				continue
			}
			tm := time.NewTimer(wait)
			select {
			case <-s.notify:
				tm.Stop()
			case <-tm.C:
				if wait == idleHorizon {
					return ErrIdle
				}
			}
			continue
		}
		sort.Slice(cands, func(a, b int) bool { return cands[a].ID < cands[b].ID })
		curFirst := false
		if s.cur != nil {
			for i, t := range cands {
				if t == s.cur {
					if i != 0 {
						copy(cands[1:i+1], cands[0:i])
						cands[0] = t
					}
					curFirst = true
					break
				}
			}
		}
		n := len(cands) + len(due)
		var k int
		if curFirst && cands[0].excl {
			k = 0
		} else {
			k = s.choose(n, curFirst)
		}
		s.StepCnt++
		if s.StepCnt > maxSteps {
			s.mu.Lock()
			s.parked = append(s.parked, cands...)
			s.mu.Unlock()
			return ErrStepBudget
		}
		if s.LogSched {
			var names []string
			for _, c := range cands {
				names = append(names, fmt.Sprintf("%d:%s", c.ID, c.Name))
			}
			for _, e := range due {
				names = append(names, "ev:"+e.Name)
			}
			s.SchedLog = append(s.SchedLog, fmt.Sprintf("%d t=%v k=%d %v", s.StepCnt, time.Now().UnixNano(), k, names))
		}
		if k < len(cands) {
			t := cands[k]
			rest := append(cands[:k:k], cands[k+1:]...)
			s.mu.Lock()
			s.parked = append(s.parked, rest...)
			s.mu.Unlock()
			if s.cur != t {
				s.Switches++
			}
			s.cur = t
			t.Steps++
			s.schedSig = s.schedSig*1099511628211 ^ hashStr(t.Name)
			t.wake <- struct{}{}
		} else {
			s.mu.Lock()
			s.parked = append(s.parked, cands...)
			s.mu.Unlock()
			ev := due[k-len(cands)]
			s.schedSig = s.schedSig*1099511628211 ^ hashStr(ev.Name)
			ev.Run()
		}
	}
}

//go:norace
func hashStr(x string) uint64 {
	h := uint64(14695981039346656037)
	for i := 0; i < len(x); i++ {
		h ^= uint64(x[i])
		h *= 1099511628211
	}
	return h
}

// SchedSig is a hash of the sequence of (task site | event name) scheduled so far.
//
//go:norace
func (s *Sched) SchedSig() uint64 { return s.schedSig }

// Alive returns the tasks that have not finished.
//
//go:norace
func (s *Sched) Alive() []*Task {
	s.mu.Lock()
	defer s.mu.Unlock()
	var r []*Task
	for _, t := range s.all {
		if !t.done {
			r = append(r, t)
		}
	}
	return r
}

// TaskCount returns the number of tasks ever created.
//
//go:norace
func (s *Sched) TaskCount() int {
	s.mu.Lock()
	defer s.mu.Unlock()
	return len(s.all)
}

// Describe lists alive tasks with what they wait for.
//
//go:norace
func (s *Sched) Describe() []string {
	var r []string
	for _, t := range s.Alive() {
		w := t.waiting
		if w == "" {
			w = "chan/runnable"
		}
		r = append(r, fmt.Sprintf("%d:%s[%s]", t.ID, t.Name, w))
	}
	return r
}

// Teardown kills every task that is parked in the scheduler (runnable or blocked in vsync / sim I/O)
// by making it Goexit at its park point. Tasks blocked in real channel operations cannot be killed;
// the caller recovers synctest's end-of-bubble panic for those.
//
//go:norace
func (s *Sched) Teardown() {
	s.poison.Store(true)
	for i := 0; i < 1000; i++ {
		synctest.Wait()
		alive := s.Alive()
		if len(alive) == 0 {
			return
		}
		progressed := false
		for _, t := range alive {
			select {
			case t.wake <- struct{}{}:
				progressed = true
			default:
			}
		}
		if !progressed {
			return
		}
	}
}

// SortedKeys returns the keys of m in ascending order (rule R5).
func SortedKeys[M ~map[K]V, K cmp.Ordered, V any](m M) []K {
	ks := make([]K, 0, len(m))
	for k := range m {
		ks = append(ks, k)
	}
	slices.Sort(ks)
	return ks
}

// ZeroElem returns the zero value of a channel's element type (used by rewritten selects).
//
//go:norace
func ZeroElem[T any, C interface{ ~chan T | ~<-chan T }](c C) (z T) { return }

// SelectOrder returns the order in which a rewritten select polls its clauses (rule R4).
//
//go:norace
func SelectOrder(n int) []int {
	RaceDisable()
	defer RaceEnable()
	s := Active()
	p := make([]int, n)
	for i := range p {
		p[i] = i
	}
	if s == nil || s.poison.Load() {
		return p
	}
	s.mu.Lock()
	s.selRng.Shuffle(n, func(i, j int) { p[i], p[j] = p[j], p[i] })
	s.mu.Unlock()
	return p
}

// Intn replaces math/rand.Intn in the system under test (rule R6).
//
//go:norace
func Intn(n int) int {
	RaceDisable()
	defer RaceEnable()
	s := Active()
	if s == nil {
		return rand.IntN(n)
	}
	s.mu.Lock()
	defer s.mu.Unlock()
	return s.intRng.IntN(n)
}

// UUID replaces uuid.New().String()-style identifiers with a counter (rule R6).
//
//go:norace
func UUID() string {
	RaceDisable()
	defer RaceEnable()
	s := Active()
	if s == nil {
		return fmt.Sprintf("free-%d", rand.Uint64())
	}
	s.mu.Lock()
	defer s.mu.Unlock()
	s.uuidCtr++
	return fmt.Sprintf("00000000-0000-4000-8000-%012d", s.uuidCtr)
}

// SpinGuard is called at the top of loop bodies that may busy-spin (inserted by R3 in
// select-default loops). It yields; if the same site spins more than limit times in a row
// without any other task running, the task is quarantined (blocked forever).
//
//go:norace
func SpinGuard(site string) {
	RaceDisable()
	defer RaceEnable()
	s := Active()
	if s == nil || s.poison.Load() {
		return
	}
	Yield()
}
