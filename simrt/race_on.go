//go:build race

package simrt

import (
	"runtime"
	"unsafe"
)

// RaceOn reports whether the binary was built with the race detector.
const RaceOn = true

// RaceDisable / RaceEnable hide the simulator's own synchronisation (task hand-off, scheduler and
// world bookkeeping) from the race detector: with the hand-off visible every task switch would be
// a happens-before edge and no race between tasks could ever be reported.
func RaceDisable() { runtime.RaceDisable() }
func RaceEnable()  { runtime.RaceEnable() }

// RaceAcquire, RaceRelease and RaceReleaseMerge give the virtual sync primitives (vsync) the
// happens-before edges the real ones have.
func RaceAcquire(p unsafe.Pointer)      { runtime.RaceAcquire(p) }
func RaceRelease(p unsafe.Pointer)      { runtime.RaceRelease(p) }
func RaceReleaseMerge(p unsafe.Pointer) { runtime.RaceReleaseMerge(p) }
