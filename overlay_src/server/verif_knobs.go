package server

import "github.com/DrmagicE/gmqtt/pkg/packets"

// Added by the verification overlay (never part of /repo): simulation knobs.

// VerifSetNextPacketID moves the packet identifier cursor of this connection (called from the
// OnConnected hook, before anything is delivered), so that the wrap-around at 65535 is reached without
// sending 65535 messages. Identifiers that are in use keep being skipped by pollPacketIDs.
func (client *client) VerifSetNextPacketID(id uint16) {
	if client.pl == nil || id == 0 {
		return
	}
	client.pl.cond.L.Lock()
	client.pl.freePid = packets.PacketID(id)
	client.pl.cond.L.Unlock()
}

// VerifQueue returns the queue store of a client id (nil if none), for oracles.
func VerifQueue(s Server, clientID string) interface{} {
	srv, ok := s.(*server)
	if !ok {
		return nil
	}
	if q, ok := srv.queueStore[clientID]; ok {
		return q
	}
	return nil
}
