package federation

import (
	"sort"

	"github.com/DrmagicE/gmqtt"
	"github.com/DrmagicE/gmqtt/persistence/subscription"
)

// Added by the verification overlay (never part of /repo): read-only access to the plugin's state for
// the C16 / C17 oracles.

// VerifState is a snapshot of the federation plugin's view of the cluster.
type VerifState struct {
	Node        string
	FedSubs     map[string][]string // peer node -> full topic names the plugin believes it subscribes
	LocalTopics []string            // full topic names with at least one local subscriber (reference counted set)
	Peers       []string            // nodes with an outgoing event queue
	Unacked     map[string]int      // peer -> events queued and not yet acknowledged
	Sessions    map[string]string   // peer -> incoming session id
	NextEventID map[string]uint64
}

// VerifState must be called from an exclusive observer task.
func (f *Federation) VerifState() *VerifState {
	st := &VerifState{Node: f.nodeName, FedSubs: map[string][]string{}, Unacked: map[string]int{}, Sessions: map[string]string{}, NextEventID: map[string]uint64{}}
	f.fedSubStore.Iterate(func(node string, sub *gmqtt.Subscription) bool {
		st.FedSubs[node] = append(st.FedSubs[node], sub.GetFullTopicName())
		return true
	}, subscription.IterationOptions{Type: subscription.TypeAll})
	for _, v := range st.FedSubs {
		sort.Strings(v)
	}
	for k := range f.localSubStore.topics {
		st.LocalTopics = append(st.LocalTopics, k)
	}
	sort.Strings(st.LocalTopics)
	for name, p := range f.peers {
		st.Peers = append(st.Peers, name)
		if q, ok := p.queue.(*eventQueue); ok {
			st.Unacked[name] = q.l.Len()
		}
	}
	sort.Strings(st.Peers)
	for name, s := range f.sessionMgr.sessions {
		st.Sessions[name] = s.id
		st.NextEventID[name] = s.nextEventID
	}
	return st
}

// VerifKill ends the plugin's background goroutines the way the death of the process would (the
// plugin itself never closes f.exit; in a real deployment the process exit does the job).
func (f *Federation) VerifKill() {
	select {
	case <-f.exit:
	default:
		close(f.exit)
	}
}
