package mem

import (
	"fmt"

	"github.com/DrmagicE/gmqtt/persistence/queue"
)

// Added by the verification overlay (never part of /repo): read-only access to the queue's true
// contents for the C10 oracle.

// VerifLen returns the number of elements in the list and how many of them are before the read cursor.
func (q *Queue) VerifLen() (total, beforeCursor int) {
	// no locking: under the simulator one task runs at a time and taking the (virtual) lock would be a
	// scheduling point between the caller's observation and this one
	total = q.l.Len()
	for e := q.l.Front(); e != nil && e != q.current; e = e.Next() {
		beforeCursor++
	}
	return
}

// VerifDump lists the elements in order: kind, packet id, payload, and a '|' where the read cursor is.
func (q *Queue) VerifDump() []string {
	var out []string
	for e := q.l.Front(); e != nil; e = e.Next() {
		s := ""
		if e == q.current {
			s = "| "
		}
		el := e.Value.(*queue.Elem)
		switch m := el.MessageWithID.(type) {
		case *queue.Publish:
			s += fmt.Sprintf("PUBLISH pid=%d q%d %s", m.PacketID, m.QoS, m.Payload)
		case *queue.Pubrel:
			s += fmt.Sprintf("PUBREL pid=%d", m.PacketID)
		}
		out = append(out, s)
	}
	return out
}
