package mem

// Added by the verification overlay (never part of /repo): read-only access to the queue's true
// contents for the C10 oracle.

// VerifLen returns the number of elements in the list and how many of them are before the read cursor.
func (q *Queue) VerifLen() (total, beforeCursor int) {
	// no locking: under the simulator one task runs at a time and taking the (virtual) lock would be a
	// scheduling point between the caller's observation and this one
	total = q.l.Len()
	for e := q.l.Front(); e != nil && e != q.current; e = e.Next() {
		beforeCursor++
	}
	return
}
