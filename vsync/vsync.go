// Package vsync is a drop-in replacement for the parts of sync that gmqtt uses.
// When a simrt scheduler is active the primitives are virtual (scheduler-aware);
// otherwise they delegate to the real sync package.
package vsync

import (
	"unsafe"

	"sync"

	"verifsim/simrt"
)

type Locker = sync.Locker
type Pool = sync.Pool
type Map = sync.Map

// ---------------- Mutex

type Mutex struct {
	hb      byte // address used for the race detector's happens-before edges
	real    sync.Mutex
	im      sync.Mutex // protects the virtual fields
	locked  bool
	waiters []*simrt.Task
}

//go:norace
func (m *Mutex) Lock() {
	s := simrt.Active()
	if s == nil {
		m.real.Lock()
		return
	}
	simrt.Yield()
	t := s.Cur()
	simrt.RaceDisable()
	for {
		m.im.Lock()
		if !m.locked {
			m.locked = true
			m.im.Unlock()
			simrt.RaceEnable()
			simrt.RaceAcquire(unsafe.Pointer(&m.hb))
			return
		}
		m.waiters = append(m.waiters, t)
		m.im.Unlock()
		s.Block(t, "mutex")
	}
}

//go:norace
func (m *Mutex) TryLock() bool {
	s := simrt.Active()
	if s == nil {
		return m.real.TryLock()
	}
	simrt.RaceDisable()
	m.im.Lock()
	if m.locked {
		m.im.Unlock()
		simrt.RaceEnable()
		return false
	}
	m.locked = true
	m.im.Unlock()
	simrt.RaceEnable()
	simrt.RaceAcquire(unsafe.Pointer(&m.hb))
	return true
}

//go:norace
func (m *Mutex) Unlock() {
	s := simrt.Active()
	if s == nil {
		m.real.Unlock()
		return
	}
	simrt.RaceRelease(unsafe.Pointer(&m.hb))
	simrt.RaceDisable()
	defer simrt.RaceEnable()
	m.im.Lock()
	if !m.locked {
		m.im.Unlock()
		if s.Poisoned() {
			// teardown: a task that ended inside Cond.Wait runs its deferred Unlock without holding the lock
			return
		}
		panic("vsync: unlock of unlocked mutex")
	}
	m.locked = false
	w := m.waiters
	m.waiters = nil
	m.im.Unlock()
	s.MakeRunnable(w...)
}

// ---------------- RWMutex

type RWMutex struct {
	hbR, hbW byte // as sync.RWMutex: readerSem / writerSem addresses for happens-before edges
	real     sync.RWMutex
	im       sync.Mutex
	writer   bool
	readers  int
	waiters  []*simrt.Task
}

//go:norace
func (m *RWMutex) Lock() {
	s := simrt.Active()
	if s == nil {
		m.real.Lock()
		return
	}
	simrt.Yield()
	t := s.Cur()
	simrt.RaceDisable()
	for {
		m.im.Lock()
		if !m.writer && m.readers == 0 {
			m.writer = true
			m.im.Unlock()
			simrt.RaceEnable()
			simrt.RaceAcquire(unsafe.Pointer(&m.hbR))
			simrt.RaceAcquire(unsafe.Pointer(&m.hbW))
			return
		}
		m.waiters = append(m.waiters, t)
		m.im.Unlock()
		s.Block(t, "rwmutex.Lock")
	}
}

//go:norace
func (m *RWMutex) Unlock() {
	s := simrt.Active()
	if s == nil {
		m.real.Unlock()
		return
	}
	simrt.RaceRelease(unsafe.Pointer(&m.hbR))
	simrt.RaceDisable()
	defer simrt.RaceEnable()
	m.im.Lock()
	m.writer = false
	w := m.waiters
	m.waiters = nil
	m.im.Unlock()
	s.MakeRunnable(w...)
}

//go:norace
func (m *RWMutex) RLock() {
	s := simrt.Active()
	if s == nil {
		m.real.RLock()
		return
	}
	simrt.Yield()
	t := s.Cur()
	simrt.RaceDisable()
	for {
		m.im.Lock()
		if !m.writer {
			m.readers++
			m.im.Unlock()
			simrt.RaceEnable()
			simrt.RaceAcquire(unsafe.Pointer(&m.hbR))
			return
		}
		m.waiters = append(m.waiters, t)
		m.im.Unlock()
		s.Block(t, "rwmutex.RLock")
	}
}

//go:norace
func (m *RWMutex) RUnlock() {
	s := simrt.Active()
	if s == nil {
		m.real.RUnlock()
		return
	}
	simrt.RaceReleaseMerge(unsafe.Pointer(&m.hbW))
	simrt.RaceDisable()
	defer simrt.RaceEnable()
	m.im.Lock()
	m.readers--
	var w []*simrt.Task
	if m.readers == 0 {
		w = m.waiters
		m.waiters = nil
	}
	m.im.Unlock()
	s.MakeRunnable(w...)
}

//go:norace
func (m *RWMutex) RLocker() Locker { return (*rlocker)(m) }

type rlocker RWMutex

//go:norace
func (r *rlocker) Lock() { (*RWMutex)(r).RLock() }

//go:norace
func (r *rlocker) Unlock() { (*RWMutex)(r).RUnlock() }

// ---------------- Cond

type Cond struct {
	L       Locker
	real    *sync.Cond
	im      sync.Mutex
	waiters []*simrt.Task
}

//go:norace
func NewCond(l Locker) *Cond {
	c := &Cond{L: l}
	// the real cond works on the real mutex inside our Mutex when inactive
	switch m := l.(type) {
	case *Mutex:
		c.real = sync.NewCond(&m.real)
	case *RWMutex:
		c.real = sync.NewCond(&m.real)
	default:
		c.real = sync.NewCond(l)
	}
	return c
}

//go:norace
func (c *Cond) Wait() {
	s := simrt.Active()
	if s == nil {
		c.real.Wait()
		return
	}
	t := s.Cur()
	simrt.RaceDisable()
	c.im.Lock()
	c.waiters = append(c.waiters, t)
	c.im.Unlock()
	simrt.RaceEnable()
	c.L.Unlock()
	s.Block(t, "cond.Wait")
	c.L.Lock()
}

//go:norace
func (c *Cond) Signal() {
	s := simrt.Active()
	if s == nil {
		c.real.Signal()
		return
	}
	simrt.RaceDisable()
	defer simrt.RaceEnable()
	c.im.Lock()
	var w *simrt.Task
	if len(c.waiters) > 0 {
		w = c.waiters[0]
		c.waiters = c.waiters[1:]
	}
	c.im.Unlock()
	if w != nil {
		s.MakeRunnable(w)
	}
}

//go:norace
func (c *Cond) Broadcast() {
	s := simrt.Active()
	if s == nil {
		c.real.Broadcast()
		return
	}
	simrt.RaceDisable()
	defer simrt.RaceEnable()
	c.im.Lock()
	w := c.waiters
	c.waiters = nil
	c.im.Unlock()
	s.MakeRunnable(w...)
}

// ---------------- WaitGroup

type WaitGroup struct {
	hb      byte
	real    sync.WaitGroup
	im      sync.Mutex
	n       int
	waiters []*simrt.Task
}

//go:norace
func (wg *WaitGroup) Add(d int) {
	s := simrt.Active()
	if s == nil {
		wg.real.Add(d)
		return
	}
	if d < 0 {
		simrt.RaceReleaseMerge(unsafe.Pointer(&wg.hb))
	}
	simrt.RaceDisable()
	defer simrt.RaceEnable()
	wg.im.Lock()
	wg.n += d
	if wg.n < 0 {
		wg.im.Unlock()
		panic("vsync: negative WaitGroup counter")
	}
	var w []*simrt.Task
	if wg.n == 0 {
		w = wg.waiters
		wg.waiters = nil
	}
	wg.im.Unlock()
	s.MakeRunnable(w...)
}

//go:norace
func (wg *WaitGroup) Done() { wg.Add(-1) }

//go:norace
func (wg *WaitGroup) Wait() {
	s := simrt.Active()
	if s == nil {
		wg.real.Wait()
		return
	}
	simrt.Yield()
	t := s.Cur()
	simrt.RaceDisable()
	for {
		wg.im.Lock()
		if wg.n == 0 {
			wg.im.Unlock()
			simrt.RaceEnable()
			simrt.RaceAcquire(unsafe.Pointer(&wg.hb))
			return
		}
		wg.waiters = append(wg.waiters, t)
		wg.im.Unlock()
		s.Block(t, "waitgroup")
	}
}

// ---------------- Once

type Once struct {
	hb      byte
	real    sync.Once
	im      sync.Mutex
	state   int // 0 new, 1 running, 2 done
	waiters []*simrt.Task
}

//go:norace
func (o *Once) Do(f func()) {
	s := simrt.Active()
	if s == nil {
		o.real.Do(f)
		return
	}
	t := s.Cur()
	for {
		simrt.RaceDisable()
		o.im.Lock()
		switch o.state {
		case 2:
			o.im.Unlock()
			simrt.RaceEnable()
			simrt.RaceAcquire(unsafe.Pointer(&o.hb))
			return
		case 0:
			o.state = 1
			o.im.Unlock()
			simrt.RaceEnable()
			defer func() {
				simrt.RaceRelease(unsafe.Pointer(&o.hb))
				simrt.RaceDisable()
				o.im.Lock()
				o.state = 2
				w := o.waiters
				o.waiters = nil
				o.im.Unlock()
				s.MakeRunnable(w...)
				simrt.RaceEnable()
			}()
			f()
			return
		default:
			o.waiters = append(o.waiters, t)
			o.im.Unlock()
			s.Block(t, "once")
			simrt.RaceEnable()
		}
	}
}
