// Package vsync is a drop-in replacement for the parts of sync that gmqtt uses.
// When a simrt scheduler is active the primitives are virtual (scheduler-aware);
// otherwise they delegate to the real sync package.
package vsync

import (
	"sync"

	"verifsim/simrt"
)

type Locker = sync.Locker
type Pool = sync.Pool
type Map = sync.Map

// ---------------- Mutex

type Mutex struct {
	real    sync.Mutex
	im      sync.Mutex // protects the virtual fields
	locked  bool
	waiters []*simrt.Task
}

func (m *Mutex) Lock() {
	s := simrt.Active()
	if s == nil {
		m.real.Lock()
		return
	}
	simrt.Yield()
	t := s.Cur()
	for {
		m.im.Lock()
		if !m.locked {
			m.locked = true
			m.im.Unlock()
			return
		}
		m.waiters = append(m.waiters, t)
		m.im.Unlock()
		s.Block(t, "mutex")
	}
}

func (m *Mutex) TryLock() bool {
	s := simrt.Active()
	if s == nil {
		return m.real.TryLock()
	}
	m.im.Lock()
	defer m.im.Unlock()
	if m.locked {
		return false
	}
	m.locked = true
	return true
}

func (m *Mutex) Unlock() {
	s := simrt.Active()
	if s == nil {
		m.real.Unlock()
		return
	}
	m.im.Lock()
	if !m.locked {
		m.im.Unlock()
		if s.Poisoned() {
			// teardown: a task that ended inside Cond.Wait runs its deferred Unlock without holding the lock
			return
		}
		panic("vsync: unlock of unlocked mutex")
	}
	m.locked = false
	w := m.waiters
	m.waiters = nil
	m.im.Unlock()
	s.MakeRunnable(w...)
}

// ---------------- RWMutex

type RWMutex struct {
	real    sync.RWMutex
	im      sync.Mutex
	writer  bool
	readers int
	waiters []*simrt.Task
}

func (m *RWMutex) Lock() {
	s := simrt.Active()
	if s == nil {
		m.real.Lock()
		return
	}
	simrt.Yield()
	t := s.Cur()
	for {
		m.im.Lock()
		if !m.writer && m.readers == 0 {
			m.writer = true
			m.im.Unlock()
			return
		}
		m.waiters = append(m.waiters, t)
		m.im.Unlock()
		s.Block(t, "rwmutex.Lock")
	}
}

func (m *RWMutex) Unlock() {
	s := simrt.Active()
	if s == nil {
		m.real.Unlock()
		return
	}
	m.im.Lock()
	m.writer = false
	w := m.waiters
	m.waiters = nil
	m.im.Unlock()
	s.MakeRunnable(w...)
}

func (m *RWMutex) RLock() {
	s := simrt.Active()
	if s == nil {
		m.real.RLock()
		return
	}
	simrt.Yield()
	t := s.Cur()
	for {
		m.im.Lock()
		if !m.writer {
			m.readers++
			m.im.Unlock()
			return
		}
		m.waiters = append(m.waiters, t)
		m.im.Unlock()
		s.Block(t, "rwmutex.RLock")
	}
}

func (m *RWMutex) RUnlock() {
	s := simrt.Active()
	if s == nil {
		m.real.RUnlock()
		return
	}
	m.im.Lock()
	m.readers--
	var w []*simrt.Task
	if m.readers == 0 {
		w = m.waiters
		m.waiters = nil
	}
	m.im.Unlock()
	s.MakeRunnable(w...)
}

func (m *RWMutex) RLocker() Locker { return (*rlocker)(m) }

type rlocker RWMutex

func (r *rlocker) Lock()   { (*RWMutex)(r).RLock() }
func (r *rlocker) Unlock() { (*RWMutex)(r).RUnlock() }

// ---------------- Cond

type Cond struct {
	L       Locker
	real    *sync.Cond
	im      sync.Mutex
	waiters []*simrt.Task
}

func NewCond(l Locker) *Cond {
	c := &Cond{L: l}
	// the real cond works on the real mutex inside our Mutex when inactive
	switch m := l.(type) {
	case *Mutex:
		c.real = sync.NewCond(&m.real)
	case *RWMutex:
		c.real = sync.NewCond(&m.real)
	default:
		c.real = sync.NewCond(l)
	}
	return c
}

func (c *Cond) Wait() {
	s := simrt.Active()
	if s == nil {
		c.real.Wait()
		return
	}
	t := s.Cur()
	c.im.Lock()
	c.waiters = append(c.waiters, t)
	c.im.Unlock()
	c.L.Unlock()
	s.Block(t, "cond.Wait")
	c.L.Lock()
}

func (c *Cond) Signal() {
	s := simrt.Active()
	if s == nil {
		c.real.Signal()
		return
	}
	c.im.Lock()
	var w *simrt.Task
	if len(c.waiters) > 0 {
		w = c.waiters[0]
		c.waiters = c.waiters[1:]
	}
	c.im.Unlock()
	if w != nil {
		s.MakeRunnable(w)
	}
}

func (c *Cond) Broadcast() {
	s := simrt.Active()
	if s == nil {
		c.real.Broadcast()
		return
	}
	c.im.Lock()
	w := c.waiters
	c.waiters = nil
	c.im.Unlock()
	s.MakeRunnable(w...)
}

// ---------------- WaitGroup

type WaitGroup struct {
	real    sync.WaitGroup
	im      sync.Mutex
	n       int
	waiters []*simrt.Task
}

func (wg *WaitGroup) Add(d int) {
	s := simrt.Active()
	if s == nil {
		wg.real.Add(d)
		return
	}
	wg.im.Lock()
	wg.n += d
	if wg.n < 0 {
		wg.im.Unlock()
		panic("vsync: negative WaitGroup counter")
	}
	var w []*simrt.Task
	if wg.n == 0 {
		w = wg.waiters
		wg.waiters = nil
	}
	wg.im.Unlock()
	s.MakeRunnable(w...)
}

func (wg *WaitGroup) Done() { wg.Add(-1) }

func (wg *WaitGroup) Wait() {
	s := simrt.Active()
	if s == nil {
		wg.real.Wait()
		return
	}
	simrt.Yield()
	t := s.Cur()
	for {
		wg.im.Lock()
		if wg.n == 0 {
			wg.im.Unlock()
			return
		}
		wg.waiters = append(wg.waiters, t)
		wg.im.Unlock()
		s.Block(t, "waitgroup")
	}
}

// ---------------- Once

type Once struct {
	real    sync.Once
	im      sync.Mutex
	state   int // 0 new, 1 running, 2 done
	waiters []*simrt.Task
}

func (o *Once) Do(f func()) {
	s := simrt.Active()
	if s == nil {
		o.real.Do(f)
		return
	}
	t := s.Cur()
	for {
		o.im.Lock()
		switch o.state {
		case 2:
			o.im.Unlock()
			return
		case 0:
			o.state = 1
			o.im.Unlock()
			defer func() {
				o.im.Lock()
				o.state = 2
				w := o.waiters
				o.waiters = nil
				o.im.Unlock()
				s.MakeRunnable(w...)
			}()
			f()
			return
		default:
			o.waiters = append(o.waiters, t)
			o.im.Unlock()
			s.Block(t, "once")
		}
	}
}
