package checks

import (
	"fmt"
	"math/rand/v2"
	"sort"
	"strings"
	"testing"
	"testing/synctest"
	"time"

	"github.com/DrmagicE/gmqtt"
	"github.com/DrmagicE/gmqtt/persistence/queue"
	qmem "github.com/DrmagicE/gmqtt/persistence/queue/mem"
	qredis "github.com/DrmagicE/gmqtt/persistence/queue/redis"
	"github.com/DrmagicE/gmqtt/pkg/packets"
	redigo "github.com/gomodule/redigo/redis"

	"verifsim/sim"
	"verifsim/simredis"
	"verifsim/simrt"
)

// C10: the session message queue is bounded, FIFO, conserving, and drops by the documented priority.
// Store-level simulation: adder, reader, acker and controller tasks on one queue.Store (memory or
// redis on simredis) under the seeded scheduler and the fake clock.

func init() {
	register(&Check{ID: "C10", Gen: genC10, Oracle: func(p *sim.Plan, out *sim.Outcome) []sim.Violation { return out.Viol },
		Custom: runC10,
		Nontrivial: func(p *sim.Plan, out *sim.Outcome) bool {
			return out.Probes["dropped"]+out.Probes["reinit"] > 0 && out.Switches > 5
		}})
}

func genC10(rng *rand.Rand, tier string) *sim.Plan {
	p := NewPlan("C10", rng.Uint64(), rng)
	p.Params = map[string]string{
		"backend": pick(rng, []string{"mem", "mem", "redis"}),
		"max":     fmt.Sprint(pick(rng, []int{1, 2, 3, 5, 8})),
		"inflexp": fmt.Sprint(pick(rng, []int{0, 2, 30})),
		"limit":   fmt.Sprint(pick(rng, []int{40, 1 << 20})),
		"adders":  fmt.Sprint(1 + rng.IntN(2)),
		"adds":    fmt.Sprint(3 + rng.IntN(14)),
		"rounds":  fmt.Sprint(1 + rng.IntN(3)),
		"wseed":   fmt.Sprint(rng.Uint64()),
		"restart": fmt.Sprint(rng.IntN(2)),
		"maxids":  fmt.Sprint(1 + rng.IntN(4)),
		"relbias": fmt.Sprint(rng.IntN(3)), // 2: QoS 2 heavy, PUBREL entries kept across quick re-initialisations
		// 1: the acknowledging side goes quiet for seconds at a time while messages keep arriving slowly, so that
		// in-flight entries outlive the in-flight expiry and a full queue has to sacrifice them (first rung of the ladder)
		"ackstrike": fmt.Sprint(rng.IntN(3) / 2),
	}
	// 1: seconds pass between Close and Init while messages keep arriving; 2: nothing arrives while the queue is
	// closed, so whatever expired in flight is still there when the first Add races the replay after Init
	p.Params["offline"] = fmt.Sprint(pick(rng, []int{0, 0, 0, 1, 2, 2}))
	if p.Params["relbias"] == "2" {
		p.Params["adds"] = fmt.Sprint(10 + rng.IntN(20))
		p.Params["rounds"] = fmt.Sprint(3 + rng.IntN(6))
		p.Params["max"] = fmt.Sprint(pick(rng, []int{1, 2, 3}))
	}
	p.Sched.SwitchProb = pick(rng, []float64{0.1, 0.3, 0.6})
	return p
}

type c10msg struct {
	idx     int // insertion attempt number
	payload string
	qos     byte
	expiry  time.Time // zero = none (as given to Add)
	size    uint32
	// state
	where   string // queued | inflight | rel | handed0 | removed | dropped | rejected
	id      packets.PacketID
	inflExp time.Time
	dropWhy string
	handed  int // times handed out by Read / ReadInflight
}

type c10notifier struct {
	st *c10state
}

type c10state struct {
	t         *testing.T
	viol      []sim.Violation
	msgs      []*c10msg // every Add attempt in return order
	byPay     map[string]*c10msg
	order     []*c10msg // model of the queue contents in order (queued + inflight)
	qDelta    int
	iDelta    int
	dropsSeen map[string]string // payload -> reason (from the notifier, pending attribution)
	max       int
	inflExp   time.Duration
	limit     uint32
	probes    map[string]int
	drained   bool
	log       []string
	backend   string
	droppedID []packets.PacketID // identifiers of entries reported dropped while they had one (expired in-flight)
}

func (s *c10state) fail(clause, sig, f string, a ...any) {
	if len(s.viol) < 20 {
		s.viol = append(s.viol, viol("C10", clause, sig, "["+s.backend+" backend] "+f+"  | recent ops: %s", append(a, strings.Join(tailS(s.log, 14), " ; "))...))
	}
}

func tailS(l []string, n int) []string {
	if len(l) > n {
		return l[len(l)-n:]
	}
	return l
}

func (n *c10notifier) NotifyDropped(e *queue.Elem, err error) {
	s := n.st
	s.probes["dropped"]++
	s.probes["dropped: "+err.Error()]++
	switch m := e.MessageWithID.(type) {
	case *queue.Publish:
		pl := string(m.Payload)
		if old, ok := s.dropsSeen[pl]; ok {
			s.fail("conserve", "dropped-twice", "message %q reported dropped twice (%s, %v)", pl, old, err)
		}
		s.dropsSeen[pl] = err.Error()
		if m.PacketID != 0 {
			s.droppedID = append(s.droppedID, m.PacketID)
		}
	case *queue.Pubrel:
		s.dropsSeen[fmt.Sprintf("rel:%d", m.PacketID)] = err.Error()
		s.droppedID = append(s.droppedID, m.PacketID)
	}
}
func (n *c10notifier) NotifyInflightAdded(d int) { n.st.iDelta += d }
func (n *c10notifier) NotifyMsgQueueAdded(d int) { n.st.qDelta += d }

func (s *c10state) inflight() []*c10msg {
	var r []*c10msg
	for _, m := range s.order {
		if m.where == "inflight" || m.where == "rel" {
			r = append(r, m)
		}
	}
	return r
}
func (s *c10state) queued() []*c10msg {
	var r []*c10msg
	for _, m := range s.order {
		if m.where == "queued" {
			r = append(r, m)
		}
	}
	return r
}
func (s *c10state) remove(m *c10msg) {
	for i, x := range s.order {
		if x == m {
			s.order = append(s.order[:i:i], s.order[i+1:]...)
			return
		}
	}
}

// afterAdd applies the model for one Add that has just returned.
func (s *c10state) afterAdd(m *c10msg, inv, now time.Time) {
	m.idx = len(s.msgs) + 1 // insertion order = order in which the Add calls took effect
	s.msgs = append(s.msgs, m)
	s.byPay[m.payload] = m
	full := len(s.order) >= s.max
	if !full {
		m.where = "queued"
		s.order = append(s.order, m)
		if why, ok := s.dropsSeen[m.payload]; ok {
			s.fail("drop_ladder", "drop-when-not-full", "message %q dropped (%s) although the queue held %d < max %d", m.payload, why, len(s.order)-1, s.max)
		}
		if len(s.dropsSeen) != 0 {
			s.fail("drop_ladder", "drop-when-not-full", "Add on a queue with room reported drops %v", s.dropsSeen)
			s.applyDrops(now)
		}
		return
	}
	// full: exactly one element must be sacrificed — the newcomer or one of the contents
	if len(s.dropsSeen) != 1 {
		s.fail("conserve", "full-add-drops", "Add on a full queue (len %d, max %d) reported %d drops %v; exactly one element has to go", len(s.order), s.max, len(s.dropsSeen), s.dropsSeen)
	}
	var victim *c10msg
	var why string
	for pl, w := range s.dropsSeen {
		why = w
		if strings.HasPrefix(pl, "rel:") {
			var id int
			fmt.Sscanf(pl, "rel:%d", &id)
			for _, x := range s.order {
				if x.where == "rel" && int(x.id) == id {
					victim = x
				}
			}
		} else if pl == m.payload {
			victim = m
		} else {
			victim = s.byPay[pl]
		}
	}
	if victim == nil {
		s.dropsSeen = map[string]string{}
		m.where = "queued"
		s.order = append(s.order, m)
		return
	}
	// classify what was available. The store reads its clock somewhere between the invocation (inv) and the
	// return (now) of Add, and stamped the in-flight expiry somewhat before the model did (eps bounds both).
	// An in-flight entry is "definitely" expired only when the in-flight expiry is configured, the entry still
	// holds its message and the stamp lies before the invocation; it "may" count as expired when the stamp
	// (or, with in-flight expiry disabled, its message expiry, which the entry keeps) has passed by the return,
	// and for QoS 2 flows in the PUBREL stage, whose entry the implementation re-stamps only when it is replayed.
	expired := func(x *c10msg) bool { return !x.expiry.IsZero() && now.After(x.expiry) }
	mayExpired := func(x *c10msg) bool { return !x.expiry.IsZero() && now.After(s.lo(x.expiry)) }
	defInfl := func(x *c10msg) bool {
		return x.where == "inflight" && s.inflExp != 0 && !x.inflExp.IsZero() && inv.After(x.inflExp)
	}
	mayInfl := func(x *c10msg) bool {
		if s.inflExp != 0 {
			return !x.inflExp.IsZero() && now.After(s.lo(x.inflExp))
		}
		return mayExpired(x)
	}
	infl, qd := s.inflight(), s.queued()
	var expInfl, mayExpInfl, expQ, mayExpQ, q0 []*c10msg
	for _, x := range infl {
		if defInfl(x) {
			expInfl = append(expInfl, x)
		}
		if mayInfl(x) {
			mayExpInfl = append(mayExpInfl, x)
		}
	}
	for _, x := range qd {
		if expired(x) {
			expQ = append(expQ, x)
		}
		if mayExpired(x) {
			mayExpQ = append(mayExpQ, x)
		}
		if x.qos == 0 {
			q0 = append(q0, x)
		}
	}
	in := func(l []*c10msg, x *c10msg) bool {
		for _, y := range l {
			if y == x {
				return true
			}
		}
		return false
	}
	want := ""
	switch {
	case len(expInfl) > 0:
		want = "an expired in-flight entry"
		if !in(mayExpInfl, victim) {
			s.fail("drop_ladder", "ladder-expired-inflight", "queue full with an expired in-flight entry (%q, in flight since before %v, now %v) but %q was sacrificed (%s)", expInfl[0].payload, expInfl[0].inflExp.Add(-s.inflExp), inv, victim.payload, why)
		}
	case in(mayExpInfl, victim) && why == queue.ErrDropExpiredInflight.Error():
		want = "an in-flight entry that may count as expired"
	case len(qd) == 0:
		want = "the newcomer (nothing is queued)"
		if victim != m {
			s.fail("drop_ladder", "ladder-nothing-queued", "queue full of in-flight entries only: the newcomer %q must be dropped, but %q was (%s) [victim state %s, in-flight expiry %v, message expiry %v, configured in-flight expiry %v, inv %v now %v]", m.payload, victim.payload, why, victim.where, victim.inflExp, victim.expiry, s.inflExp, inv, now)
		}
	case len(expQ) > 0:
		want = "an expired queued message"
		if !in(mayExpQ, victim) {
			s.fail("drop_ladder", "ladder-expired-queued", "queue full with expired queued message %q but %q was sacrificed (%s)", expQ[0].payload, victim.payload, why)
		}
	case in(mayExpQ, victim) && why == queue.ErrDropExpired.Error():
		want = "a queued message that may count as expired"
	case len(q0) > 0:
		want = "a queued QoS 0 message"
		if !in(q0, victim) {
			s.fail("drop_ladder", "ladder-qos0", "queue full with queued QoS 0 message %q but %q (qos %d) was sacrificed (%s)", q0[0].payload, victim.payload, victim.qos, why)
		}
	case m.qos == 0:
		want = "the QoS 0 newcomer"
		if victim != m {
			s.fail("drop_ladder", "ladder-newcomer-qos0", "queue full, newcomer %q is QoS 0 and must be dropped, but %q was (%s)", m.payload, victim.payload, why)
		}
	default:
		want = "the oldest queued message"
		if victim != qd[0] {
			s.fail("drop_ladder", "ladder-oldest", "queue full: the oldest queued message %q must be dropped, but %q was (%s)", qd[0].payload, victim.payload, why)
		}
	}
	_ = want
	s.dropsSeen = map[string]string{}
	if victim == m {
		m.where = "dropped"
		m.dropWhy = why
		return
	}
	wasInfl := victim.where == "inflight" || victim.where == "rel"
	victim.where = "dropped"
	victim.dropWhy = why
	s.remove(victim)
	_ = wasInfl
	m.where = "queued"
	s.order = append(s.order, m)
}

// lo is the earliest instant at which the store may consider a deadline t passed: the store read its clock up to
// eps before the model did, and the redis back end keeps deadlines in whole seconds (rounded down).
func (s *c10state) lo(t time.Time) time.Time {
	if s.backend == "redis" {
		return t.Add(-5 * time.Millisecond).Truncate(time.Second)
	}
	return t.Add(-time.Millisecond)
}

// applyDrops moves every message the notifier reported as dropped out of the model.
func (s *c10state) applyDrops(now time.Time) {
	for pl, why := range s.dropsSeen {
		if m := s.byPay[pl]; m != nil {
			switch why {
			case queue.ErrDropExpired.Error():
				if m.expiry.IsZero() || !now.After(s.lo(m.expiry)) {
					s.fail("conserve", "not-expired", "message %q reported dropped as expired, but it has not expired (expiry %v, now %v)", pl, m.expiry, now)
				}
			case queue.ErrDropExceedsMaxPacketSize.Error():
				if m.size <= s.limit {
					s.fail("conserve", "not-oversize", "message %q (%d bytes) reported dropped as oversize, read limit %d", pl, m.size, s.limit)
				}
			}
			if m.where == "dropped" || m.where == "removed" || m.where == "handed0" {
				s.fail("conserve", "drop-of-gone", "message %q reported dropped (%s) but it was already %s", pl, why, m.where)
			}
			m.where = "dropped"
			m.dropWhy = why
			s.remove(m)
		}
	}
	s.dropsSeen = map[string]string{}
}

func runC10(tb TB, p *sim.Plan) *sim.Outcome {
	t := tb.(*testing.T)
	out := &sim.Outcome{H: sim.NewHistory(), Faults: map[string]int{}, Probes: map[string]int{}}
	defer func() {
		if r := recover(); r != nil {
			if msg := fmt.Sprint(r); strings.HasPrefix(msg, "deadlock") {
				out.Leaked = true
				return
			}
			panic(r)
		}
	}()
	atoi := func(k string) int {
		var n int
		fmt.Sscan(p.Params[k], &n)
		return n
	}
	synctest.Test(t, func(t *testing.T) {
		var rp []int32
		if p.Sched.Explicit {
			rp = p.Sched.Choices
			if rp == nil {
				rp = []int32{}
			}
		}
		t0 := time.Now()
		sc := simrt.Start(simrt.Options{Seed: p.Sched.Seed, SwitchProb: p.Sched.SwitchProb, Replay: rp})
		defer simrt.Stop()
		var wseed uint64
		fmt.Sscan(p.Params["wseed"], &wseed)
		rng := rand.New(rand.NewPCG(wseed, 0x633130))
		st := &c10state{t: t, byPay: map[string]*c10msg{}, dropsSeen: map[string]string{}, max: atoi("max"), inflExp: time.Duration(atoi("inflexp")) * time.Second, limit: uint32(atoi("limit")), probes: out.Probes, backend: p.Params["backend"]}
		nt := &c10notifier{st}
		redisBackend := p.Params["backend"] == "redis"
		var rs *simredis.Server
		var pool *redigo.Pool
		newStore := func() queue.Store {
			if redisBackend {
				q, _ := qredis.New(qredis.Options{MaxQueuedMsg: st.max, ClientID: "c", InflightExpiry: st.inflExp, Pool: pool, DefaultNotifier: nt})
				return q
			}
			q, _ := qmem.New(qmem.Options{MaxQueuedMsg: st.max, InflightExpiry: st.inflExp, ClientID: "c", DefaultNotifier: nt})
			return q
		}
		if redisBackend {
			rs = simredis.NewServer(wseed)
			simredis.Install(rs)
			defer simredis.Install(nil)
			pool = &redigo.Pool{MaxIdle: 10, Dial: func() (redigo.Conn, error) { return simredis.Dial("tcp", "sim") }}
		}
		var store queue.Store
		logf := func(f string, a ...any) {
			st.log = append(st.log, fmt.Sprintf("%dms ", time.Since(t0).Milliseconds())+fmt.Sprintf(f, a...))
		}
		// shared controller state (one task runs at a time)
		closed := true
		stop := false
		busy := 0 // store operations of adders / acker in progress
		generation := 0
		nextID := packets.PacketID(1)
		var everHanded []packets.PacketID // identifiers the model has seen handed out (never reused by this harness)
		adds := 0
		done := map[string]bool{}
		checkCounters := func(where string) {
			nq, ni := len(st.order), len(st.inflight())
			if st.qDelta != nq || st.iDelta != ni {
				st.fail("counters", "counters", "%s: notifier deltas sum to queued=%d in-flight=%d, true contents %d / %d", where, st.qDelta, st.iDelta, nq, ni)
				st.qDelta, st.iDelta = nq, ni // report once per divergence
			}
			if nq > st.max {
				st.fail("bounded", "over-max", "%s: %d elements in a queue with max %d", where, nq, st.max)
			}
			if mq, ok := store.(*qmem.Queue); ok {
				total, _ := mq.VerifLen()
				if total != nq {
					st.fail("conserve", "true-length", "%s: the list holds %d elements, the model (added - handed out - removed - dropped) %d", where, total, nq)
				}
			}
			if rs != nil {
				if l := rs.ListLen("queue:c"); l != nq {
					st.fail("conserve", "true-length", "%s: the redis list holds %d elements, the model (added - handed out - removed - dropped) %d", where, l, nq)
				}
			}
		}
		pause := func(d time.Duration) {
			time.Sleep(d)
			simrt.Yield()
		}
		offlineGap := false
		nearInit := false // the controller is about to re-initialise the queue (adders of the "offline" variant poll fast)
		initStore := func(clean bool) {
			err := store.Init(&queue.InitOptions{CleanStart: clean, Version: packets.Version5, ReadBytesLimit: st.limit, Notifier: nt})
			logf("Init(clean=%v)=%v", clean, err)
			if clean {
				for _, m := range st.order {
					m.where = "removed"
				}
				st.order = nil
				st.qDelta, st.iDelta = 0, 0
			}
			st.drained = false
			st.probes["reinit"]++
			closed = false
			nearInit, offlineGap = false, false
			generation++
		}
		handOut := func(elems []*queue.Elem, viaInflight bool, ids []packets.PacketID, now time.Time) {
			st.applyDrops(now) // expired / oversize messages removed while reading
			idp := 0
			lastIdx := -1
			for _, e := range elems {
				switch m := e.MessageWithID.(type) {
				case *queue.Pubrel:
					var x *c10msg
					for _, y := range st.order {
						if y.where == "rel" && y.id == m.PacketID {
							x = y
						}
					}
					if x == nil || !viaInflight {
						st.fail("replay_inflight_first", "unknown-pubrel", "PUBREL %d handed out (via ReadInflight=%v) but no such QoS 2 flow is pending", m.PacketID, viaInflight)
						continue
					}
					if x.idx < lastIdx {
						st.fail("fifo", "order", "PUBREL %d (message #%d) handed out after message #%d", m.PacketID, x.idx, lastIdx)
					}
					lastIdx = x.idx
				case *queue.Publish:
					pl := string(m.Payload)
					x := st.byPay[pl]
					if x == nil {
						st.fail("conserve", "unknown-message", "Read returned %q which was never added", pl)
						continue
					}
					x.handed++
					if x.idx < lastIdx {
						st.fail("fifo", "order", "message %q (#%d) handed out after #%d", pl, x.idx, lastIdx)
					}
					lastIdx = x.idx
					if viaInflight {
						if x.where != "inflight" {
							st.fail("replay_inflight_first", "not-inflight", "ReadInflight returned %q whose state is %s", pl, x.where)
						} else if m.PacketID != x.id {
							st.fail("replay_inflight_first", "id-changed", "ReadInflight returned %q with packet id %d, it was handed out with id %d", pl, m.PacketID, x.id)
						}
						continue
					}
					if x.where != "queued" {
						st.fail("conserve", "handed-twice", "Read returned %q whose state is %s (handed out %d times)", pl, x.where, x.handed)
						continue
					}
					if !x.expiry.IsZero() && now.After(x.expiry) {
						st.fail("no_expired_or_oversize_returned", "expired-returned", "Read returned %q which expired %v ago", pl, now.Sub(x.expiry))
					}
					if x.size > st.limit {
						st.fail("no_expired_or_oversize_returned", "oversize-returned", "Read returned %q of %d bytes, read limit %d", pl, x.size, st.limit)
					}
					// earlier queued messages must not be skipped silently
					for _, y := range st.queued() {
						if y.idx < x.idx {
							st.fail("fifo", "skipped", "Read returned %q (#%d) while the earlier message %q (#%d) is still queued", pl, x.idx, y.payload, y.idx)
							break
						}
					}
					if x.qos == 0 {
						if m.PacketID != 0 {
							st.fail("ids_in_order_qos_gt0_only", "qos0-id", "QoS 0 message %q was given packet id %d", pl, m.PacketID)
						}
						x.where = "handed0"
						st.remove(x)
					} else {
						if idp >= len(ids) || m.PacketID != ids[idp] {
							st.fail("ids_in_order_qos_gt0_only", "id-order", "message %q got packet id %d, the next supplied id was %v", pl, m.PacketID, ids[idp:])
						}
						idp++
						x.id = m.PacketID
						everHanded = append(everHanded, m.PacketID)
						x.where = "inflight"
						if st.inflExp != 0 {
							x.inflExp = now.Add(st.inflExp)
						}
					}
				}
			}
		}
		var tasksDone int
		spawn := func(name string, f func()) {
			sc.Go(name, func() {
				defer func() { tasksDone++ }()
				defer func() {
					if r := recover(); r != nil {
						st.fail("panic", "panic:"+normDigits(fmt.Sprint(r)), "%s: queue code panicked: %v", name, r)
						stop = true
					}
				}()
				f()
			})
		}
		nAdders, nAdds := atoi("adders"), atoi("adds")
		expiries := []time.Duration{0, 0, -time.Second, 3 * time.Second, time.Hour}
		mkElem := func() (*queue.Elem, *c10msg) {
			adds++
			now := time.Now()
			m := &c10msg{idx: adds, payload: fmt.Sprintf("q%d", adds), qos: byte(rng.IntN(3))}
			if p.Params["relbias"] == "2" && rng.IntN(2) == 0 {
				m.qos = 2
			}
			pay := []byte(m.payload)
			if rng.IntN(6) == 0 {
				pay = append(pay, make([]byte, 60)...)
				m.payload = string(pay)
			}
			msg := &gmqtt.Message{QoS: m.qos, Topic: "t", Payload: pay}
			m.size = msg.TotalBytes(packets.Version5)
			e := &queue.Elem{At: now, MessageWithID: &queue.Publish{Message: msg}}
			if d := expiries[rng.IntN(len(expiries))]; d != 0 {
				e.Expiry = now.Add(d)
				m.expiry = e.Expiry
			}
			return e, m
		}
		for a := 0; a < nAdders; a++ {
			spawn(fmt.Sprintf("adder%d", a), func() {
				for k := 0; k < nAdds && !stop; k++ {
					simrt.Yield()
					if p.Params["offline"] == "2" && closed && !nearInit {
						pause(250 * time.Millisecond)
						k--
						continue
					}
					if store == nil || p.Params["offline"] == "2" && closed {
						pause(time.Millisecond)
						k--
						continue
					}
					e, m := mkElem()
					if !st.drained && generation > 1 {
						st.probes["add_after_reinit_before_replay"]++
					}
					if len(st.order) >= st.max {
						st.probes["add_on_full"]++
						if !st.drained {
							st.probes["add_on_full_before_replay"]++
							for _, x := range st.order {
								if x.where == "rel" {
									st.probes["add_on_full_before_replay_with_pubrel_"+st.backend]++
									break
								}
							}
						}
					}
					busy++
					inv := time.Now()
					err := store.Add(e)
					busy--
					now := time.Now()
					logf("Add(%s q%d exp%v)=%v", trunc(m.payload), m.qos, !m.expiry.IsZero(), err)
					if err != nil && !redisBackend {
						st.fail("conserve", "add-error", "Add returned %v", err)
					}
					st.afterAdd(m, inv, now)
					checkCounters("after Add")
					if p.Params["ackstrike"] == "1" && p.Params["relbias"] != "2" {
						pause(time.Duration(rng.IntN(6000)) * time.Millisecond)
					} else if rng.IntN(4) == 0 && p.Params["relbias"] != "2" {
						pause(time.Duration(rng.IntN(1500)) * time.Millisecond)
					} else if p.Params["relbias"] == "2" {
						pause(time.Duration(rng.IntN(25)) * time.Millisecond) // keep adding while the queue is re-initialised
					}
				}
				done["adder"+fmt.Sprint(a)] = true
			})
		}
		spawn("reader", func() {
			for !stop {
				if closed && offlineGap && !nearInit {
					pause(250 * time.Millisecond)
					continue
				}
				if store == nil || closed {
					pause(time.Millisecond)
					continue
				}
				gen := generation
				s := store
				if p.Params["relbias"] == "2" {
					pause(time.Duration(rng.IntN(30)) * time.Millisecond) // the poll goroutine is slow to start
					if gen != generation || closed {
						continue
					}
				}
				// replay the in-flight entries first
				var replay []*c10msg
				for {
					n := uint(1 + rng.IntN(3))
					elems, err := s.ReadInflight(n)
					now := time.Now()
					logf("ReadInflight(%d)=%d,%v", n, len(elems), err)
					if err != nil {
						break
					}
					if uint(len(elems)) > n {
						st.fail("replay_inflight_first", "too-many", "ReadInflight(%d) returned %d entries", n, len(elems))
					}
					if len(elems) == 0 {
						break
					}
					for _, e := range elems {
						id := e.MessageWithID.ID()
						for _, y := range st.order {
							if (y.where == "inflight" || y.where == "rel") && y.id == id {
								replay = append(replay, y)
								if st.inflExp != 0 {
									y.inflExp = now.Add(st.inflExp)
								}
							}
						}
					}
					handOut(elems, true, nil, now)
				}
				// every un-acknowledged in-flight entry must have been replayed, in order
				// (an entry that was replayed and then sacrificed by an Add that came between two ReadInflight calls,
				// or acknowledged meanwhile, is no longer wanted: compare what is still in flight)
				want := st.inflight()
				still := replay[:0:0]
				for _, y := range replay {
					if y.where == "inflight" || y.where == "rel" {
						still = append(still, y)
					}
				}
				replay = still
				if gen == generation && !closed {
					if len(replay) != len(want) {
						st.fail("replay_inflight_first", "replay-set", "after re-initialisation ReadInflight replayed %v, un-acknowledged in-flight entries are %v", pays(replay), pays(want))
					} else {
						for i := range want {
							if want[i] != replay[i] {
								st.fail("replay_inflight_first", "replay-order", "in-flight entries replayed as %v, original order %v", pays(replay), pays(want))
								break
							}
						}
					}
				}
				st.drained = true
				for !stop && gen == generation && !closed {
					n := 1 + rng.IntN(atoi("maxids"))
					var ids []packets.PacketID
					for k := 0; k < n; k++ {
						ids = append(ids, nextID)
						nextID++
					}
					elems, err := s.Read(ids)
					now := time.Now()
					logf("Read(%v)=%d,%v", ids, len(elems), err)
					if err == queue.ErrClosed {
						break
					}
					if err != nil {
						if !redisBackend {
							st.fail("conserve", "read-error", "Read returned %v", err)
						}
						break
					}
					if len(elems) > len(ids) {
						st.fail("ids_in_order_qos_gt0_only", "batch-size", "Read with %d ids returned %d elements", len(ids), len(elems))
					}
					handOut(elems, false, ids, now)
					checkCounters("after Read")
					simrt.Yield()
				}
			}
		})
		spawn("acker", func() {
			for !stop {
				pause(time.Duration(1+rng.IntN(20)) * time.Millisecond)
				if p.Params["ackstrike"] == "1" && rng.IntN(3) == 0 {
					pause(time.Duration(1+rng.IntN(45)) * time.Second)
				}
				if closed && offlineGap && !nearInit {
					pause(250 * time.Millisecond)
					continue
				}
				if store == nil || closed || !st.drained {
					// acknowledgements are processed after the in-flight entries were replayed
					continue
				}
				infl := st.inflight()
				if len(everHanded) > 0 && rng.IntN(6) == 0 {
					// a late (or stray) acknowledgement: a packet identifier that is not in flight any more (already
					// acknowledged, or its entry was dropped as expired in-flight), or one that is never issued.
					// Nothing may change. (Identifiers the model has not yet seen are not used: the model lags the
					// store by one scheduling point.)
					id := everHanded[rng.IntN(len(everHanded))]
					if rng.IntN(4) == 0 {
						id = packets.PacketID(60000 + rng.IntN(5000))
					} else if n := len(st.droppedID); n > 0 && rng.IntN(2) == 0 {
						id = st.droppedID[n-1-rng.IntN(min(n, 3))] // the acknowledgement of an entry that was just dropped
						st.probes["stale_ack_of_dropped_inflight"]++
					}
					stale := true
					for _, y := range infl {
						if y.id == id {
							stale = false
						}
					}
					if stale {
						st.probes["stale_ack"]++
						busy++
						err := store.Remove(id)
						busy--
						logf("Remove(stale %d)=%v", id, err)
						checkCounters("after a Remove of an identifier that is not in flight")
						continue
					}
				}
				if len(infl) == 0 {
					continue
				}
				x := infl[rng.IntN(len(infl))]
				if x.where == "rel" && (rng.IntN(3) != 0 || p.Params["relbias"] == "2" && rng.IntN(4) != 0) {
					continue // leave QoS 2 flows in the PUBREL stage for a while
				}
				if x.qos == 2 && x.where == "inflight" && rng.IntN(2) == 0 {
					busy++
					ok, err := store.Replace(&queue.Elem{At: time.Now(), MessageWithID: &queue.Pubrel{PacketID: x.id}})
					busy--
					logf("Replace(%d)=%v,%v", x.id, ok, err)
					if ok {
						st.probes["replace_ok"]++
						x.where = "rel"
					} else if err == nil && !closed {
						st.fail("conserve", "replace-miss", "Replace(PUBREL %d) found nothing although %q is in flight with that id", x.id, x.payload)
					}
					continue
				}
				busy++
				err := store.Remove(x.id)
				busy--
				logf("Remove(%d)=%v", x.id, err)
				if err == nil {
					x.where = "removed"
					st.remove(x)
				}
				checkCounters("after Remove")
			}
		})
		spawn("controller", func() {
			store = newStore()
			initStore(true)
			rounds := atoi("rounds")
			for r := 0; r < rounds; r++ {
				pause(time.Duration(5+rng.IntN(60)) * time.Millisecond)
				if rng.IntN(3) == 0 && p.Params["relbias"] != "2" {
					pause(time.Duration(1+rng.IntN(40)) * time.Second) // clock jump: expiries pass
				}
				if p.Params["relbias"] == "2" {
					// close while a QoS 2 flow is in its PUBREL stage, so that the entry is replayed
					for tries := 0; tries < 60; tries++ {
						has := false
						for _, x := range st.order {
							if x.where == "rel" {
								has = true
							}
						}
						if has {
							break
						}
						pause(5 * time.Millisecond)
					}
				}
				for _, x := range st.order {
					if x.where == "rel" {
						st.probes["close_with_pubrel"]++
						break
					}
				}
				err := store.Close()
				closed = true
				logf("Close()=%v", err)
				pause(time.Duration(1+rng.IntN(10)) * time.Millisecond)
				if p.Params["offline"] != "" && p.Params["offline"] != "0" {
					// the session stays offline for seconds: in-flight entries outlive the in-flight expiry while
					// nothing is read, and the first Add after the re-initialisation may come before the replay
					st.probes["offline_gap"]++
					offlineGap = true
					pause(time.Duration(1+rng.IntN(40)) * time.Second)
					nearInit = true
					pause(300 * time.Millisecond)
				}
				if redisBackend && p.Params["restart"] == "1" && rng.IntN(2) == 0 {
					// "broker restart": a new object on the old list. The old process is dead: no operation of
					// the old object may still be running when the new one is created.
					store = nil
					for busy > 0 {
						pause(time.Millisecond)
					}
					store = newStore()
					st.qDelta, st.iDelta = len(st.order), len(st.inflight())
					logf("new store object")
				}
				initStore(rng.IntN(5) == 0 && p.Params["relbias"] != "2")
			}
			// wait for the adders, then drain everything
			for {
				all := true
				for a := 0; a < nAdders; a++ {
					if !done["adder"+fmt.Sprint(a)] {
						all = false
					}
				}
				if all {
					break
				}
				pause(10 * time.Millisecond)
			}
			pause(200 * time.Millisecond)
			stop = true
			store.Close()
			closed = true
		})
		drv := &c10driver{done: func() bool { return tasksDone == nAdders+3 }}
		err := sc.Loop(drv, 400000, 24*time.Hour)
		if err != nil {
			out.LoopErr = err
		}
		// C10.conserve: every added message is in exactly one place
		if err == nil {
			for _, m := range st.msgs {
				switch m.where {
				case "queued", "inflight", "rel", "handed0", "removed", "dropped":
				default:
					st.fail("conserve", "lost", "message %q ended in state %q", m.payload, m.where)
				}
				if m.where == "dropped" && m.handed > 0 && m.dropWhy != queue.ErrDropExpiredInflight.Error() && m.dropWhy != queue.ErrDropQueueFull.Error() {
					st.fail("conserve", "dropped-and-handed", "message %q was handed out %d times and also reported dropped (%s)", m.payload, m.handed, m.dropWhy)
				}
			}
		}
		out.Steps, out.Switches, out.Trace = sc.StepCnt, sc.Switches, append([]int32{}, sc.Trace...)
		out.SchedSig = sc.SchedSig()
		out.SimTime = time.Since(t0)
		out.Viol = st.viol
		for _, pn := range sc.Panics {
			out.Viol = append(out.Viol, viol("C10", "panic", "panic:"+normDigits(firstLine(pn)), "queue code panicked: %s", pn))
		}
		if rs != nil {
			for k, v := range rs.Fired {
				out.Faults[k] += v
			}
		}
		out.Faults["sched.switch"] = sc.Switches
		out.H.Add(&sim.Rec{Kind: "note", Note: strings.Join(st.log, "\n")})
		out.Hash = out.H.Hash()
		sc.Teardown()
	})
	return out
}

func firstLine(s string) string {
	if i := strings.IndexByte(s, '\n'); i > 0 {
		return s[:i]
	}
	return s
}

func pays(l []*c10msg) []string {
	var r []string
	for _, m := range l {
		r = append(r, trunc(m.payload))
	}
	sort.Strings(nil)
	return r
}

type c10driver struct{ done func() bool }

func (d *c10driver) Observe(step int) error { return nil }
func (d *c10driver) Due(now time.Time) ([]*simrt.Event, time.Time) {
	return nil, time.Time{}
}
func (d *c10driver) Done() bool { return d.done() }
