package checks

import (
	"fmt"
	"math/rand/v2"
	"sort"

	"verifsim/model"
	"verifsim/mqttc"
	"verifsim/sim"
)

// C11: shared subscriptions — each message goes to exactly one live member per group.

var c11Subs = []string{"$share/g1/s/#", "$share/g2/s/#", "$share/g1/s/a", "$share/g2/s/a", "$share/g1/#", "$share/g1/$x/#", "$share/g2/+/a", "$share/g1/s/+", "s/#", "s/a"}
var c11Topics = []string{"s/a", "s/b", "$x/y", "t", "s"}

func init() {
	register(&Check{ID: "C11", Gen: genC11, Oracle: oracleC11,
		Nontrivial: func(p *sim.Plan, out *sim.Outcome) bool {
			n := 0
			for _, r := range out.H.Recs {
				if r.Kind == "rx" && r.C > 0 && r.Pkt.Type == mqttc.PUBLISH {
					n++
				}
			}
			return n >= 2
		}})
}

func genC11(rng *rand.Rand, tier string) *sim.Plan {
	p := NewPlan("C11", rng.Uint64(), rng)
	p.Broker.SessionExpiryS = sim.Int(1000)
	n := 2 + rng.IntN(3)
	p.Clients = append(p.Clients, sim.ClientSpec{ID: "pub", Ver: 5})
	exp := make([]uint32, n+1)
	for i := 1; i <= n; i++ {
		p.Clients = append(p.Clients, sim.ClientSpec{ID: fmt.Sprintf("m%d", i), Ver: 5})
		exp[i] = pick(rng, []uint32{0, 500, 500})
	}
	conn := func(i int, clean bool) sim.Op {
		op := sim.Op{K: "connect", C: i, Clean: clean}
		if exp[i] != 0 {
			op.ExpiryS = sim.U32(exp[i])
		}
		return op
	}
	ph := sim.Phase{Ops: []sim.Op{{K: "connect", C: 0, Clean: true}}}
	for i := 1; i <= n; i++ {
		ph.Ops = append(ph.Ops, conn(i, true))
	}
	p.Phases = append(p.Phases, ph)
	pool := []string{}
	for i := 0; i < 3+rng.IntN(4); i++ {
		pool = append(pool, pick(rng, c11Subs))
	}
	online := make([]bool, n+1)
	for i := range online {
		online[i] = true
	}
	msg := 0
	subPhase := func(prob float64) sim.Phase {
		var ph sim.Phase
		for i := 1; i <= n; i++ {
			if !online[i] {
				continue
			}
			for k := 0; k < 3 && chance(rng, prob); k++ {
				ph.Ops = append(ph.Ops, sim.Op{K: "subscribe", C: i, Subs: []mqttc.Sub{{Filter: pick(rng, pool), QoS: byte(rng.IntN(3))}}})
			}
		}
		return ph
	}
	pubPhase := func() sim.Phase {
		var ph sim.Phase
		for k := 0; k < 2+rng.IntN(4); k++ {
			msg++
			ph.Ops = append(ph.Ops, sim.Op{K: "publish", C: 0, Topic: pick(rng, c11Topics), QoS: byte(rng.IntN(3)), Payload: fmt.Sprintf("x%d", msg), NoWait: chance(rng, 0.5)})
		}
		return ph
	}
	// a retained message before anybody subscribes (no_retained clause)
	p.Phases = append(p.Phases, sim.Phase{Ops: []sim.Op{{K: "publish", C: 0, Topic: "s/a", QoS: 1, Retain: true, Payload: "retained0"}}})
	p.Phases = append(p.Phases, subPhase(0.8), pubPhase())
	rounds := 1 + rng.IntN(3)
	for r := 0; r < rounds; r++ {
		var ph sim.Phase
		for i := 1; i <= n; i++ {
			if !chance(rng, 0.6) {
				continue
			}
			if !online[i] {
				ph.Ops = append(ph.Ops, conn(i, chance(rng, 0.3)))
				online[i] = true
				continue
			}
			switch k := rng.IntN(8); {
			case k < 2:
				ph.Ops = append(ph.Ops, sim.Op{K: "unsubscribe", C: i, Filters: []string{pick(rng, pool)}})
			case k < 3:
				ph.Ops = append(ph.Ops, sim.Op{K: "disconnect", C: i})
				online[i] = false
			case k < 4:
				ph.Ops = append(ph.Ops, sim.Op{K: "cut", C: i})
				online[i] = false
			case k < 5:
				ph.Ops = append(ph.Ops, conn(i, true)) // clean-start take-over
			case k < 6:
				ph.Ops = append(ph.Ops, sim.Op{K: "api_terminate", C: -1 - i, Target: p.Clients[i].ID})
				online[i] = false
			case k < 7:
				ph.Ops = append(ph.Ops, sim.Op{K: "api_unsuball", C: -1 - i, Target: p.Clients[i].ID})
			default:
				ph.Ops = append(ph.Ops, sim.Op{K: "api_unsubscribe", C: -1 - i, Target: p.Clients[i].ID, Filters: []string{pick(rng, pool)}})
			}
		}
		if chance(rng, 0.2) {
			ph.Advance = sim.Sec(600) // beyond every session expiry plus the sweep period
		}
		p.Phases = append(p.Phases, ph)
		if chance(rng, 0.5) {
			p.Phases = append(p.Phases, subPhase(0.4))
		}
		p.Phases = append(p.Phases, pubPhase())
	}
	// everybody with a session comes back to collect what was queued
	var fin sim.Phase
	for i := 1; i <= n; i++ {
		if !online[i] {
			fin.Ops = append(fin.Ops, conn(i, false))
		}
	}
	p.Phases = append(p.Phases, fin)
	if maybeRedis(rng, p, 0.25) && chance(rng, 0.5) {
		// storage fault while a session ends: removing the session record fails. The session is over all the same
		// (its client is gone): the leaver must be out of its groups
		p.Params["redis_err_match"] = pick(rng, []string{"del session:", "del queue:"})
	}
	return p
}

func oracleC11(p *sim.Plan, out *sim.Outcome) []sim.Violation {
	vs := genericOracle(p, out)
	h := out.H
	ends := phaseEnds(h)
	tl := subTimelines(p, h)
	cidx := map[string]int{}
	for i, c := range p.Clients {
		cidx[c.ID] = i
	}
	sessEnds := map[int][]int{} // client -> steps at which its session (may have) ended
	revokeAll := func(c int, sp model.Span) {
		for f := range tl[c] {
			tl[c][f] = append(tl[c][f], model.Change{Span: sp, On: false})
		}
		sessEnds[c] = append(sessEnds[c], sp.Inv)
	}
	type att struct {
		from, to int
		present  bool
	}
	attach := map[int][]att{}
	// session ends revoke every subscription of the client
	expiryOf := map[int]uint32{} // conn -> session expiry
	connOps := map[int]*sim.OpRec{}
	for _, o := range h.Ops {
		if o.Op.K == "connect" && o.Conn >= 0 {
			connOps[o.Conn] = o
			if o.Op.ExpiryS != nil {
				expiryOf[o.Conn] = *o.Op.ExpiryS
			}
		}
	}
	offlineSince := map[int]int{} // client -> step at which it went offline with a persistent session
	closed := map[int]bool{}
	lastAdvanceCheck := 0
	_ = lastAdvanceCheck
	curPhase := -1
	for _, r := range h.Recs {
		if r.Kind == "phase" {
			var k int
			if n, _ := fmt.Sscanf(r.Note, "start %d", &k); n == 1 {
				curPhase = k
			}
		}
		switch r.Kind {
		case "cclose", "bclose":
			if closed[r.Conn] || r.C <= 0 {
				continue
			}
			closed[r.Conn] = true
			if a := attach[r.C]; len(a) > 0 && a[len(a)-1].to == 1<<60 {
				a[len(a)-1].to = r.Step
			}
			// is this the client's current connection? (a displaced connection ends without ending the session)
			cur := true
			for _, o := range h.Ops {
				if o.Op.K == "connect" && o.Op.C == r.C && o.Conn > r.Conn && o.Inv >= 0 && o.Inv <= r.Step {
					cur = false
				}
			}
			if !cur {
				continue
			}
			e, ok := ends[curPhase]
			if !ok {
				e = -1
			}
			if expiryOf[r.Conn] == 0 {
				revokeAll(r.C, model.Span{Inv: r.Step, Resp: e})
			} else {
				offlineSince[r.C] = r.Step
			}
		case "rx":
			if r.Pkt.Type == mqttc.CONNACK && r.C > 0 {
				attach[r.C] = append(attach[r.C], att{from: r.Step, to: 1 << 60, present: r.Pkt.SessionPresent})
				delete(offlineSince, r.C)
				o := connOps[r.Conn]
				if o != nil && (o.Op.Clean || !r.Pkt.SessionPresent) {
					revokeAll(r.C, model.Span{Inv: o.Inv, Resp: r.Step})
				}
			}
		case "api_ret":
			o := h.Ops[r.Op]
			c, ok := cidx[o.Op.Target]
			if !ok {
				continue
			}
			switch r.Note {
			case "api_terminate":
				revokeAll(c, model.Span{Inv: o.Inv, Resp: ends[o.Phase]})
				delete(offlineSince, c)
			case "api_unsuball":
				for f := range tl[c] {
					tl[c][f] = append(tl[c][f], model.Change{Span: model.Span{Inv: o.Inv, Resp: o.Resp}, On: false})
				}
			}
		case "phase":
			// a clock jump beyond every expiry ends the sessions of offline clients
			var k int
			if n, _ := fmt.Sscanf(r.Note, "start %d", &k); n == 1 && k > 0 && p.Phases[k-1].Advance.D().Seconds() >= 590 {
				for c := range offlineSince {
					revokeAll(c, model.Span{Inv: ends[k-1], Resp: r.Step})
					delete(offlineSince, c)
				}
			}
		}
	}
	// received copies per client and payload
	type cp struct {
		qos byte
		rec *sim.Rec
	}
	recv := map[int]map[string][]cp{}
	for _, r := range h.Recs {
		if r.Kind == "rx" && r.C > 0 && r.Pkt.Type == mqttc.PUBLISH {
			if recv[r.C] == nil {
				recv[r.C] = map[string][]cp{}
			}
			if r.Pkt.Dup {
				continue // retransmission of a copy already counted
			}
			recv[r.C][string(r.Pkt.Payload)] = append(recv[r.C][string(r.Pkt.Payload)], cp{r.Pkt.QoS, r})
		}
	}
	members := len(p.Clients) - 1
	for _, o := range h.Ops {
		if o.Op.K != "publish" || o.Inv < 0 || o.Op.C != 0 {
			continue
		}
		pl := o.Op.Payload
		q := model.Span{Inv: o.Inv, Resp: effResp(h, o, ends)}
		if pl == "retained0" {
			// C11.no_retained: members that only ever held shared subscriptions must not get it
			for c := 1; c <= members; c++ {
				onlyShared := true
				for f := range tl[c] {
					if sh, _ := model.SplitShare(f); sh == "" {
						onlyShared = false
					}
				}
				if onlyShared && len(recv[c][pl]) > 0 {
					vs = append(vs, viol("C11", "no_retained", "retained-on-shared", "client %d received the retained message although it only made shared subscriptions", c))
				}
			}
			continue
		}
		// groups: (share name, filter) -> member states
		type grp struct {
			name string
			must []int
			may  []int
			qos  map[int]map[byte]bool // member -> allowed delivered QoS
		}
		groups := map[string]*grp{}
		nsLo := map[int]int{}
		nsHi := map[int]int{}
		nsQ := map[int]map[byte]bool{}
		addQ := func(m map[int]map[byte]bool, c int, vals []any) {
			if m[c] == nil {
				m[c] = map[byte]bool{}
			}
			for _, v := range vals {
				g := v.(subVal).granted
				if o.Op.QoS < g {
					g = o.Op.QoS
				}
				m[c][g] = true
			}
		}
		for c := 1; c <= members; c++ {
			var fs []string
			for f := range tl[c] {
				fs = append(fs, f)
			}
			sort.Strings(fs)
			for _, full := range fs {
				sh, f := model.SplitShare(full)
				if !model.Match(f, o.Op.Topic) {
					continue
				}
				st, vals := model.Holds(tl[c][full], q)
				if st == model.No {
					continue
				}
				if sh == "" {
					nsHi[c] = 1
					if st == model.Must {
						nsLo[c] = 1
					}
					addQ(nsQ, c, vals)
					continue
				}
				g := groups[full]
				if g == nil {
					g = &grp{name: full, qos: map[int]map[byte]bool{}}
					groups[full] = g
				}
				if st == model.Must {
					g.must = append(g.must, c)
				} else {
					g.may = append(g.may, c)
				}
				addQ(g.qos, c, vals)
			}
		}
		var gnames []string
		for n := range groups {
			gnames = append(gnames, n)
		}
		sort.Strings(gnames)
		got := map[int]int{}
		total := 0
		for c := 1; c <= members; c++ {
			got[c] = len(recv[c][pl])
			total += got[c]
		}
		// a member whose copy cannot be observed: it was not attached for the whole phase of the publish
		// and did not resume its session afterwards before that session ended
		blind := map[int]bool{}
		pe := ends[o.Phase]
		for c := 1; c <= members; c++ {
			obs := false
			for _, a := range attach[c] {
				if a.from < q.Inv && a.to > pe {
					obs = true
				}
			}
			if !obs {
				for _, a := range attach[c] {
					if a.from > q.Inv {
						if a.present {
							obs = true
							for _, e := range sessEnds[c] {
								if e >= q.Inv && e <= a.from {
									obs = false
								}
							}
						}
						break
					}
				}
			}
			blind[c] = !obs
			if blind[c] {
				nsLo[c] = 0
			}
		}
		// search an assignment: each group picks one member (optional if it has no definite member)
		picks := map[int]int{}
		var solve func(i int) bool
		solve = func(i int) bool {
			if i == len(gnames) {
				for c := 1; c <= members; c++ {
					rest := got[c] - picks[c]
					if rest < nsLo[c] || rest > nsHi[c] {
						return false
					}
				}
				return true
			}
			g := groups[gnames[i]]
			cands := append(append([]int{}, g.must...), g.may...)
			anyBlind := false
			for _, c := range cands {
				if blind[c] {
					anyBlind = true
				}
				picks[c]++
				if solve(i + 1) {
					return true
				}
				picks[c]--
			}
			if len(g.must) == 0 || anyBlind {
				return solve(i + 1)
			}
			return false
		}
		if !solve(0) {
			minT, maxT := 0, 0
			for _, n := range gnames {
				hasBlind := false
				for _, m := range append(append([]int{}, groups[n].must...), groups[n].may...) {
					if blind[m] {
						hasBlind = true
					}
				}
				if len(groups[n].must) > 0 && !hasBlind {
					minT++
				}
				maxT++
			}
			for c := 1; c <= members; c++ {
				minT += nsLo[c]
				maxT += nsHi[c]
			}
			desc := fmt.Sprintf("publish %q topic %q: groups %s, non-shared [%v..%v], received per client %v", pl, o.Op.Topic, func() string {
				s := ""
				for _, n := range gnames {
					s += fmt.Sprintf("%s{must %v may %v} ", n, groups[n].must, groups[n].may)
				}
				return s
			}(), nsLo, nsHi, got)
			// a definite non-member received a copy?
			nonMember := false
			for c := 1; c <= members; c++ {
				if got[c] == 0 {
					continue
				}
				can := nsHi[c] > 0
				for _, n := range gnames {
					for _, m := range append(append([]int{}, groups[n].must...), groups[n].may...) {
						if m == c {
							can = true
						}
					}
				}
				if !can {
					nonMember = true
					vs = append(vs, viol("C11", "leaver", "leaver-selected", "client %d received a copy although it is not subscribed to any matching group or filter: %s", c, desc))
				}
			}
			switch {
			case nonMember:
			case total < minT:
				vs = append(vs, viol("C11", "one_per_group", "lost", "fewer copies than groups with a live member: %s", desc))
			case total > maxT:
				vs = append(vs, viol("C11", "one_per_group", "duplicated", "more copies than groups and non-shared subscriptions allow: %s", desc))
			default:
				vs = append(vs, viol("C11", "one_per_group", "distribution", "no assignment of one member per group explains the deliveries: %s", desc))
			}
			continue
		}
		// C11.qos
		for c := 1; c <= members; c++ {
			allowed := map[byte]bool{}
			for qv := range nsQ[c] {
				allowed[qv] = true
			}
			for _, n := range gnames {
				for qv := range groups[n].qos[c] {
					allowed[qv] = true
				}
			}
			for _, x := range recv[c][pl] {
				if !allowed[x.qos] {
					vs = append(vs, viol("C11", "qos", "qos", "client %d received %q at QoS %d, allowed %v (published at QoS %d)", c, pl, x.qos, allowed, o.Op.QoS))
				}
			}
		}
	}
	return vs
}
