package checks

import (
	"fmt"
	"math/rand/v2"

	"verifsim/mqttc"
	"verifsim/sim"
)

// C13: limits negotiated at CONNECT hold in both directions for every valid configuration.

func init() {
	register(&Check{ID: "C13", Gen: genC13, Oracle: oracleC13,
		Nontrivial: func(p *sim.Plan, out *sim.Outcome) bool {
			n := 0
			for _, r := range out.H.Recs {
				if r.Kind == "rx" && (r.Pkt.Type == mqttc.PUBLISH || r.Pkt.Type == mqttc.DISCONNECT) {
					n++
				}
			}
			return n >= 1
		}})
}

func genC13(rng *rand.Rand, tier string) *sim.Plan {
	p := NewPlan("C13", rng.Uint64(), rng)
	// every validator-accepted combination, including the extremes
	R := pick(rng, []int{1, 2, 5, 100, 65535})
	T := pick(rng, []int{0, 1, 5, 10, 65535})
	P := pick(rng, []int{60, 100, 1000, 268435460})
	MI := pick(rng, []int{1, 5, 100, 65535})
	p.Broker.ReceiveMax = R
	p.Broker.TopicAliasMax = sim.Int(T)
	p.Broker.MaxPacketSize = P
	p.Broker.MaxInflight = MI
	p.Broker.MaxQueued = 70000
	scen := pick(rng, []string{"out", "out", "alias_in", "recvmax", "maxpkt_in"})
	p.Variant = scen
	p.Params = map[string]string{"R": fmt.Sprint(R), "T": fmt.Sprint(T), "P": fmt.Sprint(P)}
	// 0: the client under test (v5), 1: observer / partner
	p.Clients = []sim.ClientSpec{{ID: "v", Ver: 5}, {ID: "o", Ver: pick(rng, []byte{4, 5})}}
	switch scen {
	case "out":
		p.Broker.MaxPacketSize = 0 // the publisher's packets are not under test here
		p.Params["P"] = "default"
		p.Clients[1].Ver = 4 // ... nor its receive maximum
		m := uint32(pick(rng, []int{0, 30, 40, 64, 128, 200}))
		a := uint16(pick(rng, []int{0, 0, 1, 2, 5}))
		op := sim.Op{K: "connect", C: 0, Clean: true}
		if m != 0 {
			op.MaxPkt = &m
		}
		if a != 0 {
			op.AliasMax = &a
		}
		sub := sim.Op{K: "subscribe", C: 0, Subs: []mqttc.Sub{{Filter: "o/#", QoS: byte(rng.IntN(3))}}}
		if chance(rng, 0.4) {
			sub.SubID = uint32(pick(rng, []int{1, 200, 70000}))
		}
		p.Phases = append(p.Phases, sim.Phase{Ops: []sim.Op{op, sub, {K: "connect", C: 1, Clean: true}}})
		rounds := 1 + rng.IntN(3)
		msg := 0
		for r := 0; r < rounds; r++ {
			var ph sim.Phase
			for k := 0; k < 2+rng.IntN(8); k++ {
				msg++
				o := sim.Op{K: "publish", C: 1, Topic: fmt.Sprintf("o/t%d", rng.IntN(7)), QoS: byte(rng.IntN(3)), Payload: fmt.Sprintf("y%d_", msg), NoWait: chance(rng, 0.5)}
				if m != 0 {
					o.PadTo = int(m) - 24 + rng.IntN(24)
					if o.PadTo < 0 {
						o.PadTo = 0
					}
				} else if chance(rng, 0.2) {
					o.PadTo = rng.IntN(300)
				}
				ph.Ops = append(ph.Ops, o)
			}
			ph.Ops = append(ph.Ops, sim.Op{K: "ping", C: 0, Delay: sim.Ms(5)})
			p.Phases = append(p.Phases, ph)
		}
	case "alias_in":
		p.Phases = append(p.Phases, sim.Phase{Ops: []sim.Op{{K: "connect", C: 0, Clean: true}, {K: "connect", C: 1, Clean: true},
			{K: "subscribe", C: 1, Subs: []mqttc.Sub{{Filter: "i/#", QoS: 1}}}}})
		var ph sim.Phase
		msg := 0
		if T > 0 {
			cand := []int{1, T, T / 2, 2, T - 1}
			for k := 0; k < 3+rng.IntN(8); k++ {
				a := pick(rng, cand)
				if a < 1 || a > T {
					a = 1
				}
				msg++
				o := sim.Op{K: "publish", C: 0, Topic: fmt.Sprintf("i/t%d", rng.IntN(4)), QoS: byte(rng.IntN(2)), Payload: fmt.Sprintf("a%d", msg), Alias: sim.U16(uint16(a))}
				ph.Ops = append(ph.Ops, o)
				if chance(rng, 0.6) {
					msg++
					ph.Ops = append(ph.Ops, sim.Op{K: "publish", C: 0, NoTopic: true, Topic: o.Topic, QoS: byte(rng.IntN(2)), Payload: fmt.Sprintf("a%d", msg), Alias: sim.U16(uint16(a))})
				}
			}
		}
		ph.Ops = append(ph.Ops, sim.Op{K: "ping", C: 0})
		p.Phases = append(p.Phases, ph)
		if chance(rng, 0.6) {
			// the violation: alias 0 or beyond the advertised maximum
			bad := 0
			if T < 65535 && chance(rng, 0.7) {
				bad = T + 1
			}
			p.Params["violate"] = "0x94"
			p.Phases = append(p.Phases, sim.Phase{Ops: []sim.Op{
				{K: "publish", C: 0, Topic: "i/bad", QoS: 0, Payload: "bad", Alias: sim.U16(uint16(bad))},
				{K: "await_close", C: 0, D: sim.Sec(3)}}})
		}
	case "recvmax":
		p.Phases = append(p.Phases, sim.Phase{Ops: []sim.Op{{K: "connect", C: 0, Clean: true}, {K: "connect", C: 1, Clean: true},
			{K: "subscribe", C: 1, Subs: []mqttc.Sub{{Filter: "i/#", QoS: 2}}}}})
		n := R
		if n > 40 {
			n = 40
		}
		var ph sim.Phase
		msg := 0
		// fill the quota exactly: n QoS 2 publishes whose PUBREL is withheld (pipelined)
		for k := 0; k < n; k++ {
			msg++
			ph.Ops = append(ph.Ops, sim.Op{K: "publish", C: 0, Topic: "i/q", QoS: 2, PID: uint16(100 + k), Payload: fmt.Sprintf("r%d", msg), HoldRel: true, NoWait: true})
		}
		ph.Ops = append(ph.Ops, sim.Op{K: "ping", C: 0})
		p.Phases = append(p.Phases, ph)
		if R <= 40 && chance(rng, 0.5) {
			p.Params["violate"] = "0x93"
			p.Phases = append(p.Phases, sim.Phase{Ops: []sim.Op{
				{K: "publish", C: 0, Topic: "i/q", QoS: byte(1 + rng.IntN(2)), PID: 999, Payload: "over", NoWait: true},
				{K: "await_close", C: 0, D: sim.Sec(3)}}})
		} else {
			// compliant: release some, then use the freed quota again
			var ph2 sim.Phase
			rel := 1 + rng.IntN(n)
			for k := 0; k < rel; k++ {
				ph2.Ops = append(ph2.Ops, sim.Op{K: "pubrel", C: 0, PID: uint16(100 + k)})
			}
			for k := 0; k < rel; k++ {
				msg++
				ph2.Ops = append(ph2.Ops, sim.Op{K: "publish", C: 0, Topic: "i/q", QoS: byte(1 + rng.IntN(2)), PID: uint16(500 + k), Payload: fmt.Sprintf("r%d", msg), NoWait: chance(rng, 0.5)})
			}
			ph2.Ops = append(ph2.Ops, sim.Op{K: "ping", C: 0})
			p.Phases = append(p.Phases, ph2)
		}
	case "maxpkt_in":
		p.Phases = append(p.Phases, sim.Phase{Ops: []sim.Op{{K: "connect", C: 0, Clean: true}, {K: "connect", C: 1, Clean: true},
			{K: "subscribe", C: 1, Subs: []mqttc.Sub{{Filter: "i/#", QoS: 1}}}}})
		if P > 100000 {
			P = 5000 // nothing to violate within reason: just send big compliant packets
			p.Params["P"] = "0"
		}
		base := len(mqttc.Encode(&mqttc.Packet{Type: mqttc.PUBLISH, Topic: "i/m", QoS: 1, PID: 1, Props: &mqttc.Props{}}, 5))
		var ph sim.Phase
		for _, d := range []int{-1 - rng.IntN(10), 0} {
			pad := P + d - base
			// the remaining-length field grows with the size: adjust until the encoding has the wanted size
			for try := 0; try < 4; try++ {
				sz := len(mqttc.Encode(&mqttc.Packet{Type: mqttc.PUBLISH, Topic: "i/m", QoS: 1, PID: 1, Props: &mqttc.Props{}, Payload: make([]byte, pad)}, 5))
				pad += P + d - sz
			}
			if pad >= 3 {
				ph.Ops = append(ph.Ops, sim.Op{K: "publish", C: 0, Topic: "i/m", QoS: 1, Payload: fmt.Sprintf("s%d", -d), PadTo: pad})
			}
		}
		ph.Ops = append(ph.Ops, sim.Op{K: "ping", C: 0})
		p.Phases = append(p.Phases, ph)
		if p.Params["P"] != "0" && chance(rng, 0.6) {
			pad := P + 1 - base
			for try := 0; try < 4; try++ {
				sz := len(mqttc.Encode(&mqttc.Packet{Type: mqttc.PUBLISH, Topic: "i/m", QoS: 1, PID: 1, Props: &mqttc.Props{}, Payload: make([]byte, pad)}, 5))
				pad += P + 1 - sz
			}
			p.Params["violate"] = "0x95"
			p.Phases = append(p.Phases, sim.Phase{Ops: []sim.Op{
				{K: "publish", C: 0, Topic: "i/m", QoS: 1, Payload: "big", PadTo: pad, NoWait: true},
				{K: "await_close", C: 0, D: sim.Sec(3)}}})
		}
	}
	return p
}

func oracleC13(p *sim.Plan, out *sim.Outcome) []sim.Violation {
	vs := genericOracle(p, out)
	h := out.H
	ends := connEnds(h)
	var vconn = -1
	var connOp *sim.OpRec
	for _, o := range h.Ops {
		if o.Op.K == "connect" && o.Op.C == 0 {
			vconn = o.Conn
			connOp = o
		}
	}
	if connOp == nil || connOp.Result != "ok" || connOp.Ack == nil || connOp.Ack.Code != 0 {
		if connOp != nil && connOp.Inv >= 0 {
			vs = append(vs, viol("C13", "compliant_survives", "connect-refused", "a plain v5 CONNECT was not accepted under configuration %v (result %s)", p.Params, connOp.Result))
		}
		return vs
	}
	// the CONNACK must advertise the configured limits
	if pr := connOp.Ack.Props; pr != nil {
		if pr.ReceiveMax != nil && fmt.Sprint(*pr.ReceiveMax) != p.Params["R"] {
			vs = append(vs, viol("C13", "advertised", "recvmax", "CONNACK Receive Maximum %d, configured %s", *pr.ReceiveMax, p.Params["R"]))
		}
		if pr.TopicAliasMax != nil && fmt.Sprint(*pr.TopicAliasMax) != p.Params["T"] {
			vs = append(vs, viol("C13", "advertised", "aliasmax", "CONNACK Topic Alias Maximum %d, configured %s", *pr.TopicAliasMax, p.Params["T"]))
		}
	}
	violate := p.Params["violate"]
	// when was the violating packet sent?
	violStep := 1 << 60
	if violate != "" {
		for _, o := range h.Ops {
			if o.Op.C == 0 && o.Phase == len(p.Phases)-1 && o.Op.K == "publish" && o.Inv >= 0 {
				violStep = o.Inv
			}
		}
	}
	endStep, ended := ends[vconn]
	var disc *mqttc.Packet
	for _, r := range h.Recs {
		if r.Kind == "rx" && r.C == 0 && r.Pkt.Type == mqttc.DISCONNECT {
			disc = r.Pkt
		}
	}
	finalStep := 1 << 60
	for _, r := range h.Recs {
		if r.Kind == "phase" && r.Note == "final" {
			finalStep = r.Step
		}
	}
	if ended && endStep < violStep && endStep < finalStep {
		code := "none"
		if disc != nil {
			code = fmt.Sprintf("%#x", disc.Code)
		}
		vs = append(vs, viol("C13", "compliant_survives", p.Variant+"-disconnected-"+code, "a client that stayed within the advertised limits (%v, scenario %s) was disconnected (DISCONNECT reason %s) at step %d", p.Params, p.Variant, code, endStep))
	}
	// every ping of the compliant phases is answered
	for _, o := range h.Ops {
		if o.Op.C == 0 && o.Op.K == "ping" && o.Inv >= 0 && o.Result != "ok" && o.Inv < violStep {
			vs = append(vs, viol("C13", "compliant_survives", p.Variant+"-not-served", "PINGREQ of a compliant client was not answered (%s) under %v", o.Result, p.Params))
		}
	}
	if violate != "" && violStep < 1<<60 {
		closedByBroker := false
		for _, r := range h.Recs {
			if r.Kind == "bclose" && r.Conn == vconn && r.Step >= violStep && r.Step < finalStep {
				closedByBroker = true
			}
		}
		if !closedByBroker {
			vs = append(vs, viol("C13", "violator", "not-disconnected-"+violate, "a client exceeding the advertised limit (scenario %s, %v) was not disconnected", p.Variant, p.Params))
		}
		if disc != nil && fmt.Sprintf("%#x", disc.Code) != violate {
			vs = append(vs, viol("C13", "violator", "wrong-reason", "client exceeding the limit (scenario %s) got DISCONNECT %#x, expected %s", p.Variant, disc.Code, violate))
		}
	}
	switch p.Variant {
	case "out":
		vs = append(vs, c13Outbound(p, h, connOp)...)
	case "alias_in", "recvmax", "maxpkt_in":
		// compliant publishes must reach the observer on the right topic
		topicOf := map[string]string{}
		al := map[uint16]string{}
		for _, o := range h.Ops {
			if o.Op.K == "publish" && o.Op.C == 0 && o.Inv >= 0 && o.Inv < violStep {
				t := o.Op.Topic
				if o.Op.Alias != nil {
					if o.Op.NoTopic {
						t = al[*o.Op.Alias]
					} else {
						al[*o.Op.Alias] = t
					}
				}
				topicOf[o.Op.Payload] = t
			}
		}
		got := map[string]string{}
		for _, r := range h.Recs {
			if r.Kind == "rx" && r.C == 1 && r.Pkt.Type == mqttc.PUBLISH {
				pl := string(r.Pkt.Payload)
				for i := 0; i < len(pl); i++ {
					if pl[i] == '.' {
						pl = pl[:i]
						break
					}
				}
				got[pl] = r.Pkt.Topic
			}
		}
		if !(ended && endStep < violStep) {
			for pl, t := range topicOf {
				g, ok := got[pl]
				if !ok {
					vs = append(vs, viol("C13", "compliant_survives", p.Variant+"-message-lost", "message %q sent within the advertised limits (%v) was not forwarded", pl, p.Params))
				} else if g != t {
					vs = append(vs, viol("C13", "alias_in", "wrong-topic", "message %q sent through a topic alias was forwarded on topic %q, expected %q", pl, g, t))
				}
			}
		}
		if _, ok := got["bad"]; ok {
			vs = append(vs, viol("C13", "violator", "forwarded", "a PUBLISH with an invalid topic alias was forwarded"))
		}
	}
	return vs
}

func c13Outbound(p *sim.Plan, h *sim.History, connOp *sim.OpRec) []sim.Violation {
	var vs []sim.Violation
	var m uint32
	if connOp.Op.MaxPkt != nil {
		m = *connOp.Op.MaxPkt
	}
	var a uint16
	if connOp.Op.AliasMax != nil {
		a = *connOp.Op.AliasMax
	}
	topicOf := map[string]string{}
	pubs := map[string]*sim.OpRec{}
	for _, o := range h.Ops {
		if o.Op.K == "publish" && o.Op.C == 1 {
			topicOf[o.Op.Payload] = o.Op.Topic
			pubs[o.Op.Payload] = o
		}
	}
	var subOp *sim.OpRec
	for _, o := range h.Ops {
		if o.Op.K == "subscribe" && o.Op.C == 0 {
			subOp = o
		}
	}
	table := map[uint16]string{}
	got := map[string]bool{}
	for _, r := range h.Recs {
		if r.Kind != "rx" || r.C != 0 {
			continue
		}
		if m != 0 && uint32(r.Pkt.Size) > m && r.Pkt.Type != mqttc.CONNACK {
			vs = append(vs, viol("C13", "max_packet", "oversize", "broker sent a %s of %d bytes to a client that declared Maximum Packet Size %d", mqttc.TypeName(r.Pkt.Type), r.Pkt.Size, m))
		}
		if r.Pkt.Type != mqttc.PUBLISH {
			continue
		}
		pl := string(r.Pkt.Payload)
		key := pl
		for i := 0; i < len(pl); i++ {
			if pl[i] == '.' {
				key = pl[:i]
				break
			}
		}
		got[key] = true
		topic := r.Pkt.Topic
		if r.Pkt.Props != nil && r.Pkt.Props.TopicAlias != nil {
			al := *r.Pkt.Props.TopicAlias
			if al == 0 || al > a {
				vs = append(vs, viol("C13", "alias_out", "out-of-range", "broker used topic alias %d, client's Topic Alias Maximum is %d", al, a))
			}
			if topic != "" {
				table[al] = topic
			} else {
				t, ok := table[al]
				if !ok {
					vs = append(vs, viol("C13", "alias_out", "unbound", "broker used topic alias %d with an empty topic before binding it", al))
				}
				topic = t
			}
		} else if topic == "" {
			vs = append(vs, viol("C13", "alias_out", "empty-topic", "PUBLISH with empty topic and no alias"))
		}
		if want, ok := topicOf[key]; ok && topic != want {
			vs = append(vs, viol("C13", "alias_out", "wrong-topic", "message %q resolves to topic %q on the subscriber's connection, published on %q", key, topic, want))
		}
	}
	// messages that fit under every possible encoding must arrive (the connection is up: pings are judged elsewhere)
	if subOp != nil && subOp.Result == "ok" && subOp.Ack != nil && len(subOp.Ack.Codes) > 0 && subOp.Ack.Codes[0] < 0x80 {
		granted := subOp.Ack.Codes[0]
		for key, o := range pubs {
			if o.Result != "ok" && o.Op.QoS > 0 || o.Inv < 0 || o.Inv < subOp.Resp {
				continue
			}
			q := o.Op.QoS
			if granted < q {
				q = granted
			}
			pk := &mqttc.Packet{Type: mqttc.PUBLISH, Topic: o.Op.Topic, QoS: q, PID: 65535, Payload: sim.PayloadOf(o.Op), Props: &mqttc.Props{}}
			if subOp.Op.SubID != 0 {
				pk.Props.SubIDs = []uint32{subOp.Op.SubID}
			}
			if a > 0 {
				pk.Props.TopicAlias = sim.U16(a)
			}
			maxSize := len(mqttc.Encode(pk, 5))
			if (m == 0 || uint32(maxSize) <= m) && !got[key] {
				vs = append(vs, viol("C13", "max_packet", "fitting-message-dropped", "message %q (at most %d bytes on the wire) was not delivered to a client with Maximum Packet Size %d", key, maxSize, m))
			}
		}
	}
	return vs
}
