package checks

import (
	"encoding/json"
	"fmt"
	"os"
	"testing"
	"time"

	"verifsim/sim"
)

// workerMinimize shrinks a failing plan (operations, faults, schedule) while the same clause fails.
func workerMinimize(t *testing.T) {
	rf, err := loadReplay(os.Getenv("VERIF_FILE"))
	if err != nil {
		fmt.Fprintln(os.Stderr, "minimize:", err)
		os.Exit(2)
	}
	ck := Get(rf.Property)
	budget := time.Duration(envInt("VERIF_BUDGET_S", 60)) * time.Second
	maxRuns := envInt("VERIF_MIN_RUNS", 400)
	start := time.Now()
	runs := 0
	var lastOut *sim.Outcome
	var lastV *sim.Violation
	fails := func(p *sim.Plan) bool {
		if runs >= maxRuns || time.Since(start) > budget {
			return false
		}
		runs++
		out, vs, _ := execPlan(t, ck, p.Clone())
		if v := hasViol(vs, rf.Clause, rf.Sig); v != nil {
			lastOut, lastV = out, v
			return true
		}
		return false
	}
	cur := rf.Plan.Clone()
	if !fails(cur) {
		fmt.Println("MINIMIZE-RESULT {\"reproduced\":false}")
		return
	}
	// 1. schedule from the PRNG instead of the explicit vector (so that op removal keeps a valid schedule)
	explicit := cur.Sched.Explicit
	{
		c := cur.Clone()
		c.Sched.Choices = nil
		c.Sched.Explicit = false
		if fails(c) {
			cur = c
			explicit = false
		}
	}
	if !explicit {
		// simplest schedules first: never switch voluntarily
		for _, sp := range []float64{0, 0.02} {
			c := cur.Clone()
			c.Sched.SwitchProb = sp
			if sp < cur.Sched.SwitchProb && fails(c) {
				cur = c
				break
			}
		}
	}
	// 2. network simplification
	if cur.Net.ChunkMode != 0 {
		c := cur.Clone()
		c.Net.ChunkMode = 0
		if fails(c) {
			cur = c
		}
	}
	// 3. drop whole phases (last first), then ops (chunks, then singles)
	changed := true
	for changed {
		changed = false
		for i := len(cur.Phases) - 1; i >= 0; i-- {
			if len(cur.Phases) <= 1 {
				break
			}
			c := cur.Clone()
			c.Phases = append(c.Phases[:i:i], c.Phases[i+1:]...)
			if fails(c) {
				cur = c
				changed = true
			}
		}
		// drop all ops of one actor
		actors := map[int]bool{}
		for _, ph := range cur.Phases {
			for _, o := range ph.Ops {
				actors[o.C] = true
			}
		}
		for a := range actors {
			c := cur.Clone()
			n := 0
			for pi := range c.Phases {
				var keep []sim.Op
				for _, o := range c.Phases[pi].Ops {
					if o.C != a {
						keep = append(keep, o)
					} else {
						n++
					}
				}
				c.Phases[pi].Ops = keep
			}
			if n > 0 && fails(c) {
				cur = c
				changed = true
			}
		}
		for pi := len(cur.Phases) - 1; pi >= 0; pi-- {
			for size := len(cur.Phases[pi].Ops) / 2; size >= 1; size /= 2 {
				for st := 0; st+size <= len(cur.Phases[pi].Ops); {
					c := cur.Clone()
					ops := c.Phases[pi].Ops
					c.Phases[pi].Ops = append(ops[:st:st], ops[st+size:]...)
					if fails(c) {
						cur = c
						changed = true
					} else {
						st += size
					}
				}
			}
		}
		// clock jumps
		for pi := range cur.Phases {
			if cur.Phases[pi].Advance != 0 {
				c := cur.Clone()
				c.Phases[pi].Advance = 0
				if fails(c) {
					cur = c
					changed = true
				}
			}
		}
	}
	// 4. simplify individual ops (payload padding, pipelining, delays)
	for pi := range cur.Phases {
		for oi := range cur.Phases[pi].Ops {
			o := cur.Phases[pi].Ops[oi]
			if o.PadTo != 0 || o.Delay != 0 || o.ContentType != nil || o.UserProps != nil {
				c := cur.Clone()
				x := &c.Phases[pi].Ops[oi]
				x.PadTo, x.Delay, x.ContentType, x.UserProps = 0, 0, nil, nil
				if fails(c) {
					cur = c
				}
			}
		}
	}
	// 5. make the schedule explicit and shrink the choice vector
	fails(cur)
	if lastOut != nil {
		c := cur.Clone()
		c.Sched.Choices = append([]int32{}, lastOut.Trace...)
		c.Sched.Explicit = true
		if fails(c) {
			cur = c
			// truncate (the tail defaults to "keep running the current task")
			lo, hi := 0, len(cur.Sched.Choices)
			for lo < hi {
				mid := (lo + hi) / 2
				c := cur.Clone()
				c.Sched.Choices = c.Sched.Choices[:mid]
				if fails(c) {
					hi = mid
					cur = c
				} else {
					lo = mid + 1
				}
			}
			// zero blocks of entries
			for size := len(cur.Sched.Choices) / 2; size >= 1; size /= 2 {
				for st := 0; st+size <= len(cur.Sched.Choices); st += size {
					nz := false
					for _, v := range cur.Sched.Choices[st : st+size] {
						if v != 0 {
							nz = true
						}
					}
					if !nz {
						continue
					}
					c := cur.Clone()
					for i := st; i < st+size; i++ {
						c.Sched.Choices[i] = 0
					}
					if fails(c) {
						cur = c
					}
				}
			}
		}
	}
	// final confirmation run fixes hash and message
	maxRuns = runs + 1
	budget = time.Hour
	if !fails(cur) {
		fmt.Println("MINIMIZE-RESULT {\"reproduced\":false,\"stage\":\"final\"}")
		return
	}
	nz := 0
	for _, v := range cur.Sched.Choices {
		if v != 0 {
			nz++
		}
	}
	out := ReplayFile{Property: rf.Property, Clause: rf.Clause, Sig: rf.Sig, Message: lastV.Msg, Seed: rf.Seed, RunIdx: rf.RunIdx, Tier: rf.Tier, Hash: lastOut.Hash, Minimised: true, Plan: cur}
	b, _ := json.MarshalIndent(out, "", " ")
	dst := os.Getenv("VERIF_MIN_OUT")
	if err := os.WriteFile(dst, b, 0o644); err != nil {
		fmt.Fprintln(os.Stderr, err)
		os.Exit(2)
	}
	res, _ := json.Marshal(map[string]any{"reproduced": true, "runs": runs, "ops_before": rf.Plan.NumOps(), "ops_after": cur.NumOps(), "choices": len(cur.Sched.Choices), "nonzero_choices": nz, "file": dst})
	fmt.Println("MINIMIZE-RESULT " + string(res))
}
