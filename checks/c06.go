package checks

import (
	"bufio"
	"bytes"
	"fmt"
	"github.com/DrmagicE/gmqtt"
	"math/rand/v2"
	"runtime"
	"strings"
	"testing"
	"testing/synctest"
	"time"

	"github.com/DrmagicE/gmqtt/pkg/packets"

	"verifsim/mqttc"
	"verifsim/sim"
	"verifsim/simnet"
	"verifsim/simrt"
)

// C06 (the part of it that is a simulation target): the packet codec on *streams* and under *sharing*.
// Relay nodes built only from packets.Reader / packets.Writer echo what they read; several run
// concurrently (shared buffer pool); the input streams are valid packets of all 15 types from the
// independent codec, then subjected to transport faults (chunking, truncation + EOF at any offset,
// corruption, oversized length claims).

func init() {
	register(&Check{ID: "C06", Gen: genC06, Custom: runC06,
		Oracle:     func(p *sim.Plan, out *sim.Outcome) []sim.Violation { return out.Viol },
		Nontrivial: func(p *sim.Plan, out *sim.Outcome) bool { return out.Probes["packets_echoed"] >= 2 }})
}

func genC06(rng *rand.Rand, tier string) *sim.Plan {
	p := NewPlan("C06", rng.Uint64(), rng)
	p.Params = map[string]string{
		"relays": fmt.Sprint(1 + rng.IntN(5)),
		"wseed":  fmt.Sprint(rng.Uint64()),
		"fault":  pick(rng, []string{"none", "none", "truncate", "corrupt", "bighdr", "chunk1"}),
	}
	p.Sched.SwitchProb = pick(rng, []float64{0.1, 0.3, 0.6})
	return p
}

type c06relay struct {
	conn        *simnet.Conn
	ver         byte
	input       []byte          // the stream that will be delivered
	pkts        []*mqttc.Packet // valid packets in the stream, in order
	sizes       []int
	validTo     int // number of leading packets that are intact (the rest may be damaged)
	off         int // bytes delivered so far
	eofAt       int // deliver EOF after this many bytes (-1: after everything)
	eofSent     bool
	outBuf      []byte
	echoed      []*mqttc.Packet
	done        bool
	readErr     string
	panicked    string
	totals      []uint32 // packets.TotalBytes of each packet read
	read        []packets.Packet
	postPack    []uint32 // TotalBytes after the packet was written back (Pack normalises the header)
	msgSize     string   // first disagreement between Message.TotalBytes and the encoded PUBLISH
	sizeChanged string
	lag         bool // echo one packet behind
	nextAt      time.Time
	garbled     bool
	bodyHit     int // index of a packet whose body (not its fixed header) was damaged, or -1
}

func runC06(tb TB, p *sim.Plan) *sim.Outcome {
	t := tb.(*testing.T)
	out := &sim.Outcome{H: sim.NewHistory(), Faults: map[string]int{}, Probes: map[string]int{}}
	defer func() {
		if r := recover(); r != nil {
			if msg := fmt.Sprint(r); strings.HasPrefix(msg, "deadlock") {
				out.Leaked = true
				return
			}
			panic(r)
		}
	}()
	var vs []sim.Violation
	fail := func(clause, sig, f string, a ...any) {
		if len(vs) < 20 {
			vs = append(vs, viol("C06", clause, sig, f, a...))
		}
	}
	synctest.Test(t, func(t *testing.T) {
		var rp []int32
		if p.Sched.Explicit {
			rp = p.Sched.Choices
			if rp == nil {
				rp = []int32{}
			}
		}
		t0 := time.Now()
		sc := simrt.Start(simrt.Options{Seed: p.Sched.Seed, SwitchProb: p.Sched.SwitchProb, Replay: rp})
		defer simrt.Stop()
		var wseed uint64
		fmt.Sscan(p.Params["wseed"], &wseed)
		rng := rand.New(rand.NewPCG(wseed, 0x633036))
		var n int
		fmt.Sscan(p.Params["relays"], &n)
		fault := p.Params["fault"]
		var relays []*c06relay
		for i := 0; i < n; i++ {
			r := &c06relay{conn: simnet.NewConn(sc, i, fmt.Sprintf("relay%d", i)), ver: pick(rng, []byte{3, 4, 5, 5}), eofAt: -1, bodyHit: -1, lag: rng.IntN(2) == 0}
			// a stream of valid packets
			np := 1 + rng.IntN(8)
			for k := 0; k < np; k++ {
				typ := byte(1 + rng.IntN(15))
				if typ == mqttc.AUTH && r.ver != 5 {
					typ = mqttc.PUBLISH
				}
				if typ == mqttc.CONNECT && k > 0 {
					typ = mqttc.PUBLISH // a second CONNECT would switch the reader's version
				}
				pk := mqttc.RandomPacket(rng, typ, r.ver)
				b := mqttc.Encode(pk, r.ver)
				if typ == mqttc.PUBLISH && rng.IntN(6) == 0 {
					// remaining length exactly at a variable-byte-integer boundary
					target := pick(rng, []int{127, 128, 16383, 16384})
					hl := 1
					for b[hl]&0x80 != 0 {
						hl++
					}
					remain := len(b) - hl - 1
					if n := len(pk.Payload) + target - remain; n >= 0 {
						pk.Payload = make([]byte, n)
						for j := range pk.Payload {
							pk.Payload[j] = 'a' + byte(j%26) // valid UTF-8 whatever the payload format indicator says
						}
						b = mqttc.Encode(pk, r.ver)
						out.Probes["vbi_boundary_packets"]++
					}
				}
				r.pkts = append(r.pkts, pk)
				r.sizes = append(r.sizes, len(b))
				r.input = append(r.input, b...)
			}
			r.validTo = np
			// one relay of the run gets the fault, the others stay clean (sharing must not hurt them)
			if i == 0 {
				switch fault {
				case "truncate":
					r.eofAt = rng.IntN(len(r.input) + 1)
					// packets completely before the cut are intact
					sum := 0
					r.validTo = 0
					for _, s := range r.sizes {
						if sum+s <= r.eofAt {
							r.validTo++
						}
						sum += s
					}
					out.Faults["net.truncate_eof"]++
				case "corrupt":
					k := rng.IntN(np)
					start := 0
					for _, s := range r.sizes[:k] {
						start += s
					}
					pos := start + rng.IntN(r.sizes[k])
					r.validTo = k
					r.garbled = true
					switch mode := rng.IntN(5); mode {
					case 0:
						r.input[pos] ^= 1 << rng.IntN(8)
					case 1:
						r.input[pos] = 0xff
					case 2:
						r.input[pos] = 0
					default:
						// the remaining length re-written as a non-canonical (zero-padded) or an over-long
						// (5-byte) variable byte integer
						frame := r.input[start : start+r.sizes[k]]
						hl := 1
						for frame[hl]&0x80 != 0 {
							hl++
						}
						hl++
						var vbi []byte
						if mode == 3 && hl <= 4 {
							vbi = append([]byte{}, frame[1:hl]...)
							vbi[len(vbi)-1] |= 0x80
							vbi = append(vbi, 0x00)
							out.Faults["net.noncanonical_vbi"]++
							if r.pkts[k].Type != mqttc.CONNECT {
								r.bodyHit = k // the declared length is unchanged: what follows must survive
							}
						} else {
							vbi = []byte{0xff, 0xff, 0xff, 0xff, 0x01}
							out.Faults["net.overlong_vbi"]++
						}
						nf := append([]byte{frame[0]}, vbi...)
						nf = append(nf, frame[hl:]...)
						r.input = append(append(append([]byte{}, r.input[:start]...), nf...), r.input[start+r.sizes[k]:]...)
						pos = -1
					}
					hdr := 1 + len(mqttc.AppendVBI(nil, uint32(r.sizes[k])))
					if pos >= 0 && pos-start >= hdr && r.pkts[k].Type != mqttc.CONNECT {
						r.bodyHit = k
					}
					out.Faults["net.corrupt"]++
				case "bighdr":
					// a fixed header claiming a huge remaining length, then silence (no EOF)
					claim := uint32(1<<20 + rng.IntN(63<<20))
					hdr := mqttc.AppendVBI([]byte{byte(pick(rng, []byte{0x30, 0x32, 0x10, 0x82}))}, claim)
					r.input = append(r.input, hdr...)
					r.input = append(r.input, make([]byte, rng.IntN(64))...)
					r.eofAt = 1 << 30 // never
					r.garbled = true
					out.Faults["net.huge_length_claim"]++
				}
			}
			if r.eofAt == 1<<30 {
				r.lag = false // no EOF will ever flush the packet a lagging relay holds back
			}
			relays = append(relays, r)
		}
		finished := 0
		for _, r := range relays {
			r := r
			sc.Go("relay", func() {
				defer func() { finished++; r.done = true }()
				defer func() {
					if x := recover(); x != nil {
						buf := make([]byte, 4096)
						buf = buf[:runtime.Stack(buf, false)]
						r.panicked = fmt.Sprintf("%v\n%s", x, buf)
					}
				}()
				rd := packets.NewReader(bufio.NewReaderSize(r.conn, 1024))
				wr := packets.NewWriter(bufio.NewWriterSize(r.conn, 1024))
				switch r.ver {
				case 3:
					rd.SetVersion(packets.Version31)
				case 4:
					rd.SetVersion(packets.Version311)
				case 5:
					rd.SetVersion(packets.Version5)
				}
				var pending packets.Packet
				for {
					pk, err := rd.ReadPacket()
					if err != nil {
						r.readErr = err.Error()
						if pending != nil {
							wr.WriteAndFlush(pending)
						}
						return
					}
					if n := len(r.read); n > 0 && r.sizeChanged == "" {
						// the previous packet's size must not change because another packet was read: neither before it
						// was written back (lagging relays: it still carries the header the reader gave it) nor after
						want, when := r.postPack[n-1], "after it had been read and written back"
						if pending != nil {
							want, when = r.totals[n-1], "right after it had been read"
						}
						if now := packets.TotalBytes(r.read[n-1]); now != want {
							r.sizeChanged = fmt.Sprintf("packets.TotalBytes of packet #%d was %d %s and is %d after the next packet was read from the same reader", n-1, want, when, now)
						}
					}
					r.totals = append(r.totals, packets.TotalBytes(pk))
					r.read = append(r.read, pk)
					if pub, ok := pk.(*packets.Publish); ok && r.msgSize == "" {
						// C06.size for application messages: Message.TotalBytes is the length of the PUBLISH the message is
						// sent as (the broker's Maximum Packet Size decisions rest on it)
						msg := gmqtt.MessageFromPublish(pub)
						if r.ver == 5 {
							// as the broker does for a delivery: the identifiers of the matching subscriptions (the reader, in
							// broker role, does not accept them in a PUBLISH, so they are added here)
							for _, id := range [][]uint32{nil, {1}, {127, 128}, {16383, 16384, 5}, {2097151, 2097152, 268435455, 1}}[(len(pub.Payload)+len(pub.TopicName))%5] {
								msg.SubscriptionIdentifier = append(msg.SubscriptionIdentifier, id)
							}
						}
						if pub.Qos > 0 {
							msg.PacketID = pub.PacketID
						}
						v := packets.Version311
						if r.ver == 5 {
							v = packets.Version5
						}
						var b bytes.Buffer
						if err := gmqtt.MessageToPublish(msg, v).Pack(&b); err == nil && int(msg.TotalBytes(v)) != b.Len() {
							r.msgSize = fmt.Sprintf("Message.TotalBytes reports %d for a message (%d subscription identifiers, %d user properties, payload %d bytes) that is encoded as a PUBLISH of %d bytes", msg.TotalBytes(v), len(msg.SubscriptionIdentifier), len(msg.UserProperties), len(msg.Payload), b.Len())
						}
					}
					out1 := pk
					if r.lag {
						// echo one packet behind: the previous packet is written only after this one was read
						out1, pending = pending, pk
						r.postPack = append(r.postPack, 0)
						if out1 == nil {
							continue
						}
					}
					if err := wr.WriteAndFlush(out1); err != nil {
						r.readErr = "write: " + err.Error()
						return
					}
					if r.lag {
						r.postPack[len(r.read)-2] = packets.TotalBytes(out1)
					} else {
						r.postPack = append(r.postPack, packets.TotalBytes(pk))
					}
				}
			})
		}
		// allocation probe for the huge-length claim
		var msBefore runtime.MemStats
		if fault == "bighdr" {
			runtime.ReadMemStats(&msBefore)
		}
		chunk1 := fault == "chunk1"
		drv := &c06driver{relays: relays, rng: rng, chunk1: chunk1, out: out}
		err := sc.Loop(drv, 2000000, time.Hour)
		if err != nil && err != simrt.ErrIdle {
			out.LoopErr = err
		}
		if fault == "bighdr" {
			var msAfter runtime.MemStats
			runtime.ReadMemStats(&msAfter)
			supplied := uint64(len(relays[0].input))
			if d := msAfter.TotalAlloc - msBefore.TotalAlloc; d > 8<<20+64*supplied {
				fail("alloc", "prealloc", "the decoder allocated %d bytes while only %d bytes of input had been supplied (a fixed header claiming a huge remaining length)", d, supplied)
			}
		}
		for i, r := range relays {
			// drain output
			for _, sg := range r.conn.TakeSegs() {
				r.outBuf = append(r.outBuf, sg.B...)
			}
			if r.panicked != "" {
				fail("total", "panic:"+normDigits(firstLine(r.panicked)), "relay %d (v%d): the codec panicked: %s", i, r.ver, r.panicked)
				continue
			}
			// what came back, decoded by the independent decoder
			ps := mqttc.Parser{Ver: r.ver}
			echoed, perr := ps.Feed(r.outBuf)
			out.Probes["packets_echoed"] += len(echoed)
			if perr != nil && !r.garbled {
				fail("roundtrip", "encoder-output-rejected", "relay %d (v%d): the independent decoder rejects what gmqtt re-encoded: %v; input %x output %x", i, r.ver, perr, trimHex(r.input), trimHex(r.outBuf))
			}
			// every intact leading packet must have been decoded and echoed equal
			for k := 0; k < r.validTo; k++ {
				want := mqttc.Encode(canonPkt(r.pkts[k], r.ver), r.ver)
				if k >= len(echoed) {
					sig := "valid-rejected-" + mqttc.TypeName(r.pkts[k].Type)
					fail("sync", sig, "relay %d (v%d): valid %s packet #%d of the stream (%x) was not decoded and echoed; reader ended with %q after %d echoes", i, r.ver, mqttc.TypeName(r.pkts[k].Type), k, trimHex(want), r.readErr, len(echoed))
					break
				}
				got := mqttc.Encode(canonPkt(echoed[k], r.ver), r.ver)
				if !bytes.Equal(got, want) {
					fail("roundtrip", "echo-differs-"+mqttc.TypeName(r.pkts[k].Type), "relay %d (v%d): %s packet #%d came back different: sent %x, echoed %x", i, r.ver, mqttc.TypeName(r.pkts[k].Type), k, trimHex(want), trimHex(got))
					break
				}
				if k < len(r.totals) && int(r.totals[k]) != r.sizes[k] {
					fail("size", "totalbytes-"+mqttc.TypeName(r.pkts[k].Type), "relay %d (v%d): packets.TotalBytes reports %d for a %s packet of %d bytes", i, r.ver, r.totals[k], mqttc.TypeName(r.pkts[k].Type), r.sizes[k])
				}
			}
			// C06.bound: a packet whose body was damaged but whose declared length is intact must not make
			// the reader consume bytes of the packets behind it: if it was accepted, the following frames
			// come back as they were sent
			if k := r.bodyHit; k >= 0 {
				frames := splitFrames(r.outBuf)
				if len(frames) > k {
					out.Probes["damaged_accepted"]++
					for j := k + 1; j < len(r.pkts); j++ {
						want := mqttc.Encode(canonPkt(r.pkts[j], r.ver), r.ver)
						if j >= len(frames) {
							fail("bound", "after-damaged-lost", "relay %d (v%d): after accepting a damaged %s packet (declared length intact) the reader did not return the intact %s packet behind it; it ended with %q", i, r.ver, mqttc.TypeName(r.pkts[k].Type), mqttc.TypeName(r.pkts[j].Type), r.readErr)
							break
						}
						ps := mqttc.Parser{Ver: r.ver}
						e, perr := ps.Feed(frames[j])
						if perr != nil || len(e) != 1 || !bytes.Equal(mqttc.Encode(canonPkt(e[0], r.ver), r.ver), want) {
							fail("bound", "after-damaged-differs", "relay %d (v%d): after accepting a damaged %s packet the following %s packet came back different: sent %x, echoed %x", i, r.ver, mqttc.TypeName(r.pkts[k].Type), mqttc.TypeName(r.pkts[j].Type), trimHex(want), trimHex(frames[j]))
							break
						}
					}
				} else {
					out.Probes["damaged_rejected"]++
				}
			}
			if r.msgSize != "" && !r.garbled {
				fail("size", "message-totalbytes", "relay %d (v%d): %s", i, r.ver, r.msgSize)
			}
			// C06.size (again, late): a packet's size must not change when the reader goes on to later packets
			if r.sizeChanged != "" && !r.garbled {
				fail("size", "totalbytes-changes", "relay %d (v%d): %s", i, r.ver, r.sizeChanged)
			}
			// C06.bound: a stream that ends inside a packet yields no packet for the incomplete bytes
			if fault == "truncate" && i == 0 && !r.garbled && r.validTo < len(r.pkts) {
				if frames := splitFrames(r.outBuf); len(frames) > r.validTo {
					fail("bound", "accepted-truncated", "relay %d (v%d): the stream ended after %d of %d bytes, inside packet #%d (%s, %d bytes), yet the reader returned %d packets (only %d were complete)", i, r.ver, r.eofAt, len(r.input), r.validTo, mqttc.TypeName(r.pkts[r.validTo].Type), r.sizes[r.validTo], len(frames), r.validTo)
				}
			}
			// C06.total: once EOF was delivered the reader must have returned
			if r.eofSent && !r.done {
				fail("total", "hang-after-eof", "relay %d (v%d): ReadPacket did not return after EOF (input %d bytes, EOF at %d)", i, r.ver, len(r.input), r.eofAt)
			}
		}
		out.Steps, out.Switches, out.Trace = sc.StepCnt, sc.Switches, append([]int32{}, sc.Trace...)
		out.SchedSig = sc.SchedSig()
		out.SimTime = time.Since(t0)
		out.Faults["sched.switch"] = sc.Switches
		out.Faults["net.chunk"] += drv.chunks
		out.H.Add(&sim.Rec{Kind: "note", Note: fmt.Sprintf("relays=%d fault=%s", n, fault)})
		for _, r := range relays {
			out.H.Add(&sim.Rec{Kind: "note", Note: fmt.Sprintf("%x|%s|%d", r.outBuf, r.readErr, len(r.totals))})
		}
		out.Hash = out.H.Hash()
		// unblock relays that are (legitimately) still waiting for input
		for _, r := range relays {
			r.conn.PeerReset()
		}
		sc.Teardown()
	})
	out.Viol = vs
	return out
}

// canonPkt makes "no property block" and "empty property block" compare equal.
func canonPkt(p *mqttc.Packet, ver byte) *mqttc.Packet {
	if ver != 5 {
		return p
	}
	q := *p
	if q.Props == nil {
		q.Props = &mqttc.Props{}
	}
	if q.Type == mqttc.CONNECT && q.WillFlag && q.WillProps == nil {
		q.WillProps = &mqttc.Props{}
	}
	return &q
}

// splitFrames cuts a byte stream at the MQTT fixed-header boundaries.
func splitFrames(b []byte) [][]byte {
	var out [][]byte
	for len(b) >= 2 {
		n, mul, i := 0, 1, 1
		for ; i < len(b) && i <= 4; i++ {
			n += int(b[i]&0x7f) * mul
			mul *= 128
			if b[i]&0x80 == 0 {
				break
			}
		}
		if i >= len(b) || i > 4 || i+1+n > len(b) {
			break
		}
		out = append(out, b[:i+1+n])
		b = b[i+1+n:]
	}
	return out
}

func trimHex(b []byte) []byte {
	if len(b) > 400 {
		return b[:400]
	}
	return b
}

type c06driver struct {
	relays []*c06relay
	rng    *rand.Rand
	chunk1 bool
	out    *sim.Outcome
	chunks int
	seq    int
}

func (d *c06driver) Observe(step int) error {
	for _, r := range d.relays {
		for _, sg := range r.conn.TakeSegs() {
			r.outBuf = append(r.outBuf, sg.B...)
		}
	}
	return nil
}

func (d *c06driver) Due(now time.Time) (due []*simrt.Event, next time.Time) {
	for _, r := range d.relays {
		r := r
		more := r.off < len(r.input) && (r.eofAt < 0 || r.off < r.eofAt)
		eof := !r.eofSent && !more && r.eofAt < 1<<30
		if !more && !eof {
			continue
		}
		if r.nextAt.After(now) {
			if next.IsZero() || r.nextAt.Before(next) {
				next = r.nextAt
			}
			continue
		}
		d.seq++
		due = append(due, &simrt.Event{Seq: d.seq, Name: "net:" + r.conn.Name, Run: func() {
			if more {
				lim := len(r.input)
				if r.eofAt >= 0 && r.eofAt < lim {
					lim = r.eofAt
				}
				n := lim - r.off
				if d.chunk1 {
					n = 1
				} else if n > 1 && d.rng.IntN(3) > 0 {
					n = 1 + d.rng.IntN(n)
				}
				r.conn.Deliver(r.input[r.off : r.off+n])
				r.off += n
				d.chunks++
				r.nextAt = time.Now().Add(time.Duration(1+d.rng.IntN(200)) * time.Microsecond)
				return
			}
			r.eofSent = true
			r.conn.PeerClose()
		}})
	}
	return
}

func (d *c06driver) Done() bool {
	for _, r := range d.relays {
		more := r.off < len(r.input) && (r.eofAt < 0 || r.off < r.eofAt)
		if more || (!r.eofSent && r.eofAt < 1<<30) {
			return false
		}
	}
	return true
}
