package checks

import (
	"fmt"
	"math/rand/v2"

	"verifsim/mqttc"
	"verifsim/sim"
)

// C18: the WebSocket transport delivers the exact byte stream of the binary messages.
// The same client script runs over TCP (client 0) and over WebSocket (client 1) in one run.

func init() {
	register(&Check{ID: "C18", Gen: genC18, Oracle: oracleC18,
		Nontrivial: func(p *sim.Plan, out *sim.Outcome) bool {
			return out.Faults["ws.split"]+out.Faults["ws.unaligned"]+out.Faults["ws.fragmented"] > 0
		}})
}

func genC18(rng *rand.Rand, tier string) *sim.Plan {
	p := NewPlan("C18", rng.Uint64(), rng)
	p.Params = map[string]string{"ws": "1"}
	p.Broker.MaxPacketSize = 0
	ver := pick(rng, []byte{4, 5})
	// 0 tcp twin, 1 ws twin, 2 publisher / observer, 3 optional text-frame client
	p.Clients = []sim.ClientSpec{{ID: "twin-t", Ver: ver}, {ID: "twin-w", Ver: ver}, {ID: "obs", Ver: 4}}
	mode := rng.IntN(8) // 0 = drawn per connection, k = mode k-1
	text := chance(rng, 0.15)
	if text {
		p.Clients = append(p.Clients, sim.ClientSpec{ID: "texty", Ver: 4})
	}
	p.Phases = append(p.Phases, sim.Phase{Ops: []sim.Op{
		{K: "connect", C: 2, Clean: true}, {K: "subscribe", C: 2, Subs: []mqttc.Sub{{Filter: "y/#", QoS: 1}}},
		{K: "connect", C: 0, Clean: true}, {K: "subscribe", C: 0, Subs: []mqttc.Sub{{Filter: "x/t/#", QoS: 1}}},
		{K: "connect", C: 1, Clean: true, Transport: "ws", WSMode: mode}, {K: "subscribe", C: 1, Subs: []mqttc.Sub{{Filter: "x/w/#", QoS: 1}}},
	}})
	sizes := []int{1, 2, 100, 1000, 1010, 1015, 1016, 1017, 1018, 1019, 1020, 1021, 1022, 1023, 1024, 1025, 1026, 2040, 2047, 2048, 2049, 3000, 5000, 65536, 70000}
	n := 2 + rng.IntN(6)
	small := chance(rng, 0.25)
	if small {
		// a small max_packet_size: every packet is below it, the WebSocket messages that carry several of them are not
		// (the limit is about MQTT packets, not about transport messages)
		p.Broker.MaxPacketSize = 300
		sizes = []int{1, 20, 100, 200, 250}
		n = 4 + rng.IntN(8)
		if chance(rng, 0.7) {
			mode = 7 // pack several packets into one message
			p.Phases[0].Ops[4].WSMode = mode
		}
	}
	var ph sim.Phase
	for k := 0; k < n; k++ {
		sz := pick(rng, sizes)
		if chance(rng, 0.3) && !small {
			sz = 1 + rng.IntN(3000)
		}
		q := byte(rng.IntN(3))
		nw := chance(rng, 0.5) || small
		pl := fmt.Sprintf("w%d_", k)
		// the twins publish the same message (to the observer) ...
		ph.Ops = append(ph.Ops, sim.Op{K: "publish", C: 0, Topic: "y/t", QoS: q, Payload: pl, PadTo: sz, NoWait: nw})
		ph.Ops = append(ph.Ops, sim.Op{K: "publish", C: 1, Topic: "y/w", QoS: q, Payload: pl, PadTo: sz, NoWait: nw})
		// ... and receive the same message from the publisher
		ph.Ops = append(ph.Ops, sim.Op{K: "publish", C: 2, Topic: "x/t/m", QoS: q, Payload: "r" + pl, PadTo: sz})
		ph.Ops = append(ph.Ops, sim.Op{K: "publish", C: 2, Topic: "x/w/m", QoS: q, Payload: "r" + pl, PadTo: sz})
	}
	ph.Ops = append(ph.Ops, sim.Op{K: "ping", C: 0}, sim.Op{K: "ping", C: 1})
	p.Phases = append(p.Phases, ph)
	if text {
		p.Phases = append(p.Phases, sim.Phase{Ops: []sim.Op{
			{K: "connect", C: 3, Clean: true, Transport: "ws", WSMode: 1, WSText: true},
			{K: "await_close", C: 3, D: sim.Sec(8)},
		}, TimeoutS: 20})
		p.Params["text"] = "1"
	}
	return p
}

func oracleC18(p *sim.Plan, out *sim.Outcome) []sim.Violation {
	vs := genericOracle(p, out)
	h := out.H
	type ev struct {
		typ     byte
		qos     byte
		code    byte
		payload string
		n       int
	}
	seq := func(c int) []ev {
		var r []ev
		for _, x := range h.Recs {
			if x.Kind == "rx" && x.C == c {
				e := ev{typ: x.Pkt.Type, qos: x.Pkt.QoS, code: x.Pkt.Code, n: len(x.Pkt.Payload)}
				if x.Pkt.Type == mqttc.PUBLISH {
					e.payload = string(x.Pkt.Payload[:min(8, len(x.Pkt.Payload))])
				}
				r = append(r, e)
			}
		}
		return r
	}
	// per-type subsequences must agree (the relative order of acks and forwarded publishes depends on the schedule)
	st, sw := seq(0), seq(1)
	byType := func(s []ev) map[byte][]ev {
		m := map[byte][]ev{}
		for _, e := range s {
			m[e.typ] = append(m[e.typ], e)
		}
		return m
	}
	mt, mw := byType(st), byType(sw)
	for t := byte(1); t <= 15; t++ {
		a, b := mt[t], mw[t]
		if t == mqttc.PUBACK || t == mqttc.PUBREC || t == mqttc.PUBCOMP || t == mqttc.PUBREL {
			if len(a) != len(b) {
				vs = append(vs, viol("C18", "same_stream", "ack-count-"+mqttc.TypeName(t), "TCP twin received %d %s packets, WebSocket twin %d", len(a), mqttc.TypeName(t), len(b)))
			}
			continue
		}
		if len(a) != len(b) {
			vs = append(vs, viol("C18", "same_stream", "count-"+mqttc.TypeName(t), "TCP twin received %d %s packets, WebSocket twin %d", len(a), mqttc.TypeName(t), len(b)))
			continue
		}
		for i := range a {
			if a[i].qos != b[i].qos || a[i].payload != b[i].payload || a[i].n != b[i].n || a[i].code != b[i].code {
				vs = append(vs, viol("C18", "same_stream", "differs-"+mqttc.TypeName(t), "%s #%d differs between the twins: TCP %+v, WebSocket %+v", mqttc.TypeName(t), i, a[i], b[i]))
				break
			}
		}
	}
	// what the observer got from each twin
	got := map[string]map[string]int{"y/t": {}, "y/w": {}}
	for _, x := range h.Recs {
		if x.Kind == "rx" && x.C == 2 && x.Pkt.Type == mqttc.PUBLISH {
			if m := got[x.Pkt.Topic]; m != nil {
				m[fmt.Sprintf("%s/%d", x.Pkt.Payload[:min(8, len(x.Pkt.Payload))], len(x.Pkt.Payload))]++
			}
		}
	}
	for k, n := range got["y/t"] {
		if got["y/w"][k] != n {
			vs = append(vs, viol("C18", "same_stream", "forward-missing", "message %s published by both twins was forwarded %d times from the TCP twin and %d times from the WebSocket twin", k, n, got["y/w"][k]))
		}
	}
	for k, n := range got["y/w"] {
		if got["y/t"][k] != n {
			vs = append(vs, viol("C18", "same_stream", "forward-extra", "message %s: %d copies from the WebSocket twin, %d from the TCP twin", k, n, got["y/t"][k]))
		}
	}
	// every op of the ws twin completes like its tcp counterpart
	res := map[int][]string{}
	for _, o := range h.Ops {
		if o.Op.C == 0 || o.Op.C == 1 {
			res[o.Op.C] = append(res[o.Op.C], o.Op.K+":"+o.Result)
		}
	}
	for i := range res[0] {
		if i < len(res[1]) && res[0][i] != res[1][i] {
			vs = append(vs, viol("C18", "same_stream", "op-result", "operation #%d: TCP twin %s, WebSocket twin %s", i, res[0][i], res[1][i]))
			break
		}
	}
	// C18.text_rejected
	if p.Params["text"] == "1" {
		closed := false
		for _, x := range h.Recs {
			if x.Kind == "bclose" && x.C == 3 {
				closed = true
			}
		}
		for _, o := range h.Ops {
			if o.Op.C == 3 && o.Op.K == "connect" && o.Ack != nil && o.Ack.Code == 0 {
				vs = append(vs, viol("C18", "text_rejected", "text-accepted", "a CONNECT sent in WebSocket text messages was accepted"))
			}
		}
		if !closed {
			vs = append(vs, viol("C18", "text_rejected", "text-not-closed", "a connection sending WebSocket text messages was not closed by the broker"))
		}
	}
	return vs
}
