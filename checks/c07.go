package checks

import (
	"fmt"
	"math/rand/v2"
	"sort"

	"github.com/DrmagicE/gmqtt"

	"verifsim/model"
	"verifsim/mqttc"
	"verifsim/sim"
)

// C07: retained messages — last value per topic, replayed to new subscriptions per spec.

var c07Topics = []string{"r/a", "r/a/b", "r", "r/b", "$r/x", "r/a/b/c", "r//x", "$r/x/y"}
var c07Filters = []string{"r/#", "r/+", "#", "+/+", "r/a", "r/a/#", "$r/#", "$r/+", "+/a/#", "$share/g/r/#", "r/a/b", "r/+/b", "+", "r/a/b/c", "r//x", "+/#", "$r/x"}

type c07Dump struct {
	All     map[string]string // topic -> "payload|qos"
	Get     map[string]string
	Matched map[string][]string // filter -> sorted topics
}

func init() {
	register(&Check{ID: "C07", Gen: genC07, Oracle: oracleC07,
		Setup: func(p *sim.Plan) *sim.Setup {
			return &sim.Setup{Custom: map[string]func(w *sim.World, op *sim.Op) any{
				"retained_dump": func(w *sim.World, op *sim.Op) any {
					rs := w.Nodes[0].Srv.RetainedService()
					d := &c07Dump{All: map[string]string{}, Get: map[string]string{}, Matched: map[string][]string{}}
					rs.Iterate(func(m *gmqtt.Message) bool {
						d.All[m.Topic] = fmt.Sprintf("%s|%d", m.Payload, m.QoS)
						return true
					})
					for _, t := range c07Topics {
						if m := rs.GetRetainedMessage(t); m != nil {
							d.Get[t] = fmt.Sprintf("%s|%d", m.Payload, m.QoS)
						}
					}
					for _, f := range c07Filters {
						if sh, _ := model.SplitShare(f); sh != "" {
							continue
						}
						var ts []string
						for _, m := range rs.GetMatchedMessages(f) {
							ts = append(ts, m.Topic)
						}
						sort.Strings(ts)
						d.Matched[f] = ts
					}
					return d
				},
			}}
		},
		Nontrivial: func(p *sim.Plan, out *sim.Outcome) bool {
			n := 0
			for _, r := range out.H.Recs {
				if r.Kind == "rx" && r.Pkt.Type == mqttc.PUBLISH {
					n++
				}
			}
			return n >= 2
		}})
}

func genC07(rng *rand.Rand, tier string) *sim.Plan {
	p := NewPlan("C07", rng.Uint64(), rng)
	np, ns := 1+rng.IntN(2), 1+rng.IntN(3)
	for i := 0; i < np; i++ {
		p.Clients = append(p.Clients, sim.ClientSpec{ID: fmt.Sprintf("pub%d", i), Ver: pick(rng, []byte{4, 5, 5})})
	}
	for i := 0; i < ns; i++ {
		p.Clients = append(p.Clients, sim.ClientSpec{ID: fmt.Sprintf("sub%d", i), Ver: pick(rng, []byte{4, 5, 5})})
	}
	// one more subscriber that subscribes exactly once, concurrently with a retained publish (C07.no_gap)
	gap := -1
	if chance(rng, 0.6) {
		gap = len(p.Clients)
		p.Clients = append(p.Clients, sim.ClientSpec{ID: "gap", Ver: pick(rng, []byte{4, 5})})
	}
	var ph sim.Phase
	for i := range p.Clients {
		ph.Ops = append(ph.Ops, sim.Op{K: "connect", C: i, Clean: true})
	}
	p.Phases = append(p.Phases, ph)
	topics := []string{}
	for i := 0; i < 2+rng.IntN(4); i++ {
		topics = append(topics, pick(rng, c07Topics))
	}
	msg := 0
	rounds := 1 + rng.IntN(3)
	if tier == "thorough" {
		rounds = 1 + rng.IntN(6)
	}
	aliasOf := make([]map[string]uint16, np)
	for i := range aliasOf {
		aliasOf[i] = map[string]uint16{}
	}
	for r := 0; r < rounds; r++ {
		// retained publishes
		var ph sim.Phase
		for i := 0; i < np; i++ {
			v5 := p.Clients[i].Ver == 5
			for k := 0; k < 1+rng.IntN(4); k++ {
				msg++
				t := pick(rng, topics)
				op := sim.Op{K: "publish", C: i, Topic: t, QoS: byte(rng.IntN(3)), Retain: chance(rng, 0.85), Payload: fmt.Sprintf("v%d", msg)}
				if chance(rng, 0.25) {
					op.Payload = "" // clear
					op.Retain = true
				}
				if v5 && chance(rng, 0.4) {
					// topic alias: first use binds, later uses send an empty topic
					if a, ok := aliasOf[i][t]; ok {
						op.Alias = sim.U16(a)
						op.NoTopic = true
					} else {
						a := uint16(1 + len(aliasOf[i]))
						if a < 10 {
							aliasOf[i][t] = a
							op.Alias = sim.U16(a)
						}
					}
				}
				ph.Ops = append(ph.Ops, op)
			}
		}
		p.Phases = append(p.Phases, ph)
		p.Phases = append(p.Phases, sim.Phase{Ops: []sim.Op{{K: "api_custom", C: -1, Custom: "retained_dump"}}})
		// subscriptions
		var sph sim.Phase
		for i := np; i < np+ns; i++ {
			v5 := p.Clients[i].Ver == 5
			for k := 0; k < rng.IntN(4); k++ {
				if chance(rng, 0.2) {
					sph.Ops = append(sph.Ops, sim.Op{K: "unsubscribe", C: i, Filters: []string{pick(rng, c07Filters)}})
					continue
				}
				s := randSub(rng, v5, c07Filters)
				if !v5 {
					if sh, f := model.SplitShare(s.Filter); sh != "" {
						s.Filter = f
					}
				}
				sph.Ops = append(sph.Ops, sim.Op{K: "subscribe", C: i, Subs: []mqttc.Sub{s}})
			}
		}
		p.Phases = append(p.Phases, sph)
	}
	if gap >= 0 {
		// a SUBSCRIBE racing with a retained PUBLISH on the same topic: whatever the order, the new value
		// must reach the subscriber (live if the subscription came first, replayed if the publish did)
		t := pick(rng, topics)
		if t[0] == '$' {
			t = "r/a"
		}
		msg++
		g := sim.Phase{Note: "gap"}
		g.Ops = append(g.Ops, sim.Op{K: "publish", C: 0, Topic: t, QoS: byte(rng.IntN(3)), Retain: true, Payload: fmt.Sprintf("v%d", msg), Delay: sim.Us(rng.IntN(40))})
		g.Ops = append(g.Ops, sim.Op{K: "subscribe", C: gap, Subs: []mqttc.Sub{{Filter: pick(rng, []string{t, "r/#", "#"}), QoS: byte(rng.IntN(3))}}, Delay: sim.Us(rng.IntN(40))})
		p.Phases = append(p.Phases, g)
	}
	maybeRedis(rng, p, 0.2)
	return p
}

type c07val struct {
	payload string
	qos     byte
}

func oracleC07(p *sim.Plan, out *sim.Outcome) []sim.Violation {
	vs := genericOracle(p, out)
	h := out.H
	ends := phaseEnds(h)
	// retained timeline per topic
	tl := map[string][]model.Change{}
	aliases := map[int]map[uint16]string{} // conn -> alias -> topic (client side view; ops are sequential per client)
	pubByPayload := map[string]*sim.OpRec{}
	for _, o := range h.Ops {
		if o.Op.K != "publish" || o.Inv < 0 {
			continue
		}
		topic := o.Op.Topic
		if o.Op.Alias != nil {
			if aliases[o.Conn] == nil {
				aliases[o.Conn] = map[uint16]string{}
			}
			if o.Op.NoTopic {
				topic = aliases[o.Conn][*o.Op.Alias]
			} else {
				aliases[o.Conn][*o.Op.Alias] = topic
			}
		}
		if o.Op.Payload != "" {
			pubByPayload[o.Op.Payload] = o
		}
		if !o.Op.Retain {
			continue
		}
		sp := model.Span{Inv: o.Inv, Resp: effResp(h, o, ends)}
		if o.Result != "ok" && o.Op.QoS > 0 {
			sp.Resp = -1 // never acknowledged: may or may not have been applied
		}
		if o.Op.Payload == "" {
			tl[topic] = append(tl[topic], model.Change{Span: sp, On: false})
		} else {
			tl[topic] = append(tl[topic], model.Change{Span: sp, On: true, Val: c07val{o.Op.Payload, o.Op.QoS}})
		}
	}
	stateAt := func(topic string, q model.Span) (model.State3, []c07val) {
		st, vals := model.Holds(tl[topic], q)
		var r []c07val
		for _, v := range vals {
			r = append(r, v.(c07val))
		}
		return st, r
	}
	// C07.store
	for _, o := range h.Ops {
		if o.Op.K != "api_custom" || o.Ret == nil {
			continue
		}
		res := o.Ret.(*sim.APIResult)
		d, ok := res.Val.(*c07Dump)
		if !ok {
			continue
		}
		q := model.Span{Inv: o.Inv, Resp: o.Resp}
		var all []string
		for t := range tl {
			all = append(all, t)
		}
		sort.Strings(all)
		for _, t := range all {
			st, vals := stateAt(t, q)
			chk := func(src, got string, present bool) {
				switch st {
				case model.Must:
					if !present {
						vs = append(vs, viol("C07", "store", "missing-"+src, "%s: retained message for topic %q is missing; expected one of %v", src, t, vals))
						return
					}
				case model.No:
					if present {
						sig := "stale-" + src
						vs = append(vs, viol("C07", "store", sig, "%s: topic %q still has retained message %q although it was cleared (or never set)", src, t, got))
					}
					return
				}
				if present {
					okv := false
					for _, v := range vals {
						if got == fmt.Sprintf("%s|%d", v.payload, v.qos) {
							okv = true
						}
					}
					if !okv {
						vs = append(vs, viol("C07", "store", "wrong-value-"+src, "%s: topic %q holds %q, expected one of %v", src, t, got, vals))
					}
				}
			}
			g, okg := d.Get[t]
			chk("GetRetainedMessage", g, okg)
			a, oka := d.All[t]
			chk("Iterate", a, oka)
		}
		for t := range d.All {
			if _, ok := tl[t]; !ok {
				vs = append(vs, viol("C07", "store", "unknown-topic", "Iterate returned a retained message for topic %q that was never published with RETAIN=1", t))
			}
		}
		var fs []string
		for f := range d.Matched {
			fs = append(fs, f)
		}
		sort.Strings(fs)
		for _, f := range fs {
			got := map[string]bool{}
			for _, t := range d.Matched[f] {
				if got[t] {
					vs = append(vs, viol("C07", "store", "matched-dup", "GetMatchedMessages(%q) returned topic %q twice", f, t))
				}
				got[t] = true
			}
			for _, t := range all {
				st, _ := stateAt(t, q)
				m := model.Match(f, t)
				if m && st == model.Must && !got[t] {
					vs = append(vs, viol("C07", "store", "matched-missing", "GetMatchedMessages(%q) does not return the retained message of matching topic %q", f, t))
				}
				if got[t] && (!m || st == model.No) {
					vs = append(vs, viol("C07", "store", "matched-extra", "GetMatchedMessages(%q) returned topic %q (matches=%v, retained state=%v)", f, t, m, st))
				}
			}
		}
	}
	// C07.replay: per subscriber and phase
	subTl := subTimelines(p, h)
	for si := range p.Clients {
		// which phases contain subscribe ops of this client, and no publish op by anybody
		phases := map[int][]*sim.OpRec{}
		for _, o := range h.Ops {
			if o.Op.K == "subscribe" && o.Op.C == si && o.Inv >= 0 && o.Result == "ok" {
				phases[o.Phase] = append(phases[o.Phase], o)
			}
		}
		for ph, sops := range phases {
			busy := false
			for _, o := range h.Ops {
				if o.Phase == ph && (o.Op.K == "publish" || o.Op.K == "api_publish") {
					busy = true
				}
			}
			if busy {
				continue
			}
			startStep := -1
			for _, r := range h.Recs {
				if r.Kind == "phase" && r.Note == fmt.Sprintf("start %d", ph) {
					startStep = r.Step
				}
			}
			endStep := ends[ph]
			type exp struct {
				lo, hi int
				qos    map[byte]bool
			}
			expect := map[string]*exp{} // payload -> expected copies
			for _, so := range sops {
				sub := so.Op.Subs[0]
				share, filter := model.SplitShare(sub.Filter)
				if so.Ack == nil || len(so.Ack.Codes) == 0 || so.Ack.Codes[0] >= 0x80 {
					continue
				}
				granted := so.Ack.Codes[0]
				q := model.Span{Inv: so.Inv, Resp: so.Resp}
				replay := "yes"
				v5 := p.Clients[si].Ver == 5
				if share != "" {
					replay = "no"
				} else if v5 {
					switch sub.RH {
					case 2:
						replay = "no"
					case 1:
						// only if the subscription did not exist before this SUBSCRIBE
						var before []model.Change
						for _, ch := range subTl[si][sub.Filter] {
							if ch.Inv != so.Inv {
								before = append(before, ch)
							}
						}
						st, _ := model.Holds(before, model.Span{Inv: so.Inv, Resp: so.Inv})
						switch st {
						case model.Must:
							replay = "no"
						case model.May:
							replay = "may"
						}
					}
				}
				var ts []string
				for t := range tl {
					ts = append(ts, t)
				}
				sort.Strings(ts)
				for _, t := range ts {
					if !model.Match(filter, t) {
						continue
					}
					st, vals := stateAt(t, q)
					for _, v := range vals {
						e := expect[v.payload]
						if e == nil {
							e = &exp{qos: map[byte]bool{}}
							expect[v.payload] = e
						}
						mq := v.qos
						if granted < mq {
							mq = granted
						}
						e.qos[mq] = true
						if replay != "no" {
							e.hi++
							if replay == "yes" && st == model.Must && len(vals) == 1 {
								e.lo++
							}
						}
					}
				}
			}
			got := map[string]int{}
			for _, r := range h.Recs {
				if r.Kind != "rx" || r.C != si || r.Pkt.Type != mqttc.PUBLISH || r.Step < startStep || r.Step > endStep {
					continue
				}
				pl := string(r.Pkt.Payload)
				got[pl]++
				e := expect[pl]
				if e == nil || e.hi == 0 {
					vs = append(vs, viol("C07", "replay", "unexpected", "client %d received retained message %q (topic %q) in a phase where none of its SUBSCRIBEs calls for it", si, pl, r.Pkt.Topic))
					continue
				}
				if !r.Pkt.Retain {
					// Retain-As-Published of the SUBSCRIBEs of this phase that can have caused this copy
					n0, n1 := 0, 0
					for _, so := range sops {
						_, f := model.SplitShare(so.Op.Subs[0].Filter)
						if !model.Match(f, r.Pkt.Topic) {
							continue
						}
						if so.Op.Subs[0].RAP {
							n1++
						} else {
							n0++
						}
					}
					rap := "rap0"
					if n1 > 0 && n0 > 0 {
						rap = "rapmixed"
					} else if n1 > 0 {
						rap = "rap1"
					}
					vs = append(vs, viol("C07", "replay", "retain-flag-cleared-"+rap, "client %d (v%d): retained message %q sent because of a new subscription carries RETAIN=0", si, p.Clients[si].Ver, pl))
				}
				if !e.qos[r.Pkt.QoS] {
					vs = append(vs, viol("C07", "replay", "qos", "client %d: retained message %q replayed at QoS %d, expected min(stored, granted) in %v", si, pl, r.Pkt.QoS, e.qos))
				}
				if r.Pkt.Dup {
					vs = append(vs, viol("C07", "replay", "dup", "client %d: retained message %q replayed with DUP=1", si, pl))
				}
			}
			var pls []string
			for pl := range expect {
				pls = append(pls, pl)
			}
			sort.Strings(pls)
			for _, pl := range pls {
				e := expect[pl]
				if got[pl] < e.lo {
					vs = append(vs, viol("C07", "replay", "missing", "client %d: retained message %q replayed %d times, expected at least %d (one per matching new subscription)", si, pl, got[pl], e.lo))
				}
				if got[pl] > e.hi && e.hi > 0 {
					vs = append(vs, viol("C07", "replay", "too-many", "client %d: retained message %q replayed %d times, expected at most %d", si, pl, got[pl], e.hi))
				}
			}
		}
	}
	// C07.no_gap: SUBSCRIBE concurrent with a retained PUBLISH on a matching topic
	for gi, ph := range p.Phases {
		if ph.Note != "gap" {
			continue
		}
		var pub, sub *sim.OpRec
		for _, o := range h.Ops {
			if o.Phase != gi {
				continue
			}
			if o.Op.K == "publish" {
				pub = o
			}
			if o.Op.K == "subscribe" {
				sub = o
			}
		}
		if pub == nil || sub == nil || pub.Inv < 0 || sub.Inv < 0 || sub.Result != "ok" || sub.Ack == nil || len(sub.Ack.Codes) == 0 || sub.Ack.Codes[0] >= 0x80 {
			continue
		}
		if pub.Op.QoS > 0 && pub.Ack == nil {
			continue
		}
		n := 0
		for _, r := range h.Recs {
			if r.Kind == "rx" && r.C == sub.Op.C && r.Pkt.Type == mqttc.PUBLISH && string(r.Pkt.Payload) == pub.Op.Payload {
				n++
			}
		}
		out.Probes["gap_phases"]++
		if n == 0 {
			vs = append(vs, viol("C07", "no_gap", "missed-live-and-replay", "client %d subscribed %q while retained message %q was being published on %q (both acknowledged): it received the new value neither as a forwarded message nor as a retained replay", sub.Op.C, sub.Op.Subs[0].Filter, pub.Op.Payload, pub.Op.Topic))
		} else if n > 2 {
			vs = append(vs, viol("C07", "no_gap", "too-many", "client %d received retained message %q %d times for one new subscription racing with its publication", sub.Op.C, pub.Op.Payload, n))
		}
	}
	return vs
}
