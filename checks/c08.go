package checks

import (
	"fmt"
	"math/rand/v2"
	"time"

	"verifsim/mqttc"
	"verifsim/sim"
)

// C08: the will message is published exactly when, and only when, it should be.

func init() {
	register(&Check{ID: "C08", Gen: genC08, Oracle: oracleC08,
		Nontrivial: func(p *sim.Plan, out *sim.Outcome) bool {
			for _, r := range out.H.Recs {
				if r.Kind == "rx" && r.Pkt.Type == mqttc.PUBLISH && len(r.Pkt.Topic) > 2 && r.Pkt.Topic[:2] == "w/" {
					return true
				}
			}
			return out.Faults["clock.jump"] > 0
		}})
}

func genC08(rng *rand.Rand, tier string) *sim.Plan {
	p := NewPlan("C08", rng.Uint64(), rng)
	cfgExp := pick(rng, []int{7200, 60})
	p.Broker.SessionExpiryS = sim.Int(cfgExp)
	nv := 1 + rng.IntN(2)
	for i := 0; i < nv; i++ {
		p.Clients = append(p.Clients, sim.ClientSpec{ID: fmt.Sprintf("v%d", i), Ver: pick(rng, []byte{4, 5, 5, 5})})
	}
	W, W2 := nv, nv+1
	p.Clients = append(p.Clients, sim.ClientSpec{ID: "watch", Ver: 5}, sim.ClientSpec{ID: "watch2", Ver: 5})
	p.Phases = append(p.Phases, sim.Phase{Ops: []sim.Op{
		{K: "connect", C: W, Clean: true}, {K: "subscribe", C: W, Subs: []mqttc.Sub{{Filter: "w/#", QoS: 2, RAP: true}}},
		{K: "connect", C: W2, Clean: true},
	}})
	cycles := 1 + rng.IntN(3)
	if tier == "thorough" {
		cycles = 1 + rng.IntN(5)
	}
	wn := 0
	w2sub := false
	for cy := 0; cy < cycles; cy++ {
		var ph1, ph2, ph3 sim.Phase
		var m int // the largest min(delay, expiry) of this cycle, to place jumps
		for i := 0; i < nv; i++ {
			if !chance(rng, 0.85) {
				continue
			}
			v5 := p.Clients[i].Ver == 5
			wn++
			wl := &sim.Will{Topic: fmt.Sprintf("w/%d", i), Payload: fmt.Sprintf("will%d", wn), QoS: byte(rng.IntN(3)), Retain: chance(rng, 0.3)}
			if wl.Retain && cy > 0 && chance(rng, 0.3) {
				wl.Payload = "" // a retained will with an empty payload clears the topic's retained message (judged by the late subscriber)
			}
			op := sim.Op{K: "connect", C: i, Clean: chance(rng, 0.4), Will: wl}
			d, e := 0, 0
			if v5 {
				if chance(rng, 0.7) {
					d = pick(rng, []int{0, 1, 3, 10, 100})
					wl.DelayS = sim.U32(uint32(d))
				}
				if chance(rng, 0.8) {
					e = pick(rng, []int{0, 2, 5, 50, 1000})
					op.ExpiryS = sim.U32(uint32(e))
					if e > cfgExp {
						e = cfgExp
					}
				}
				if chance(rng, 0.4) {
					var o sim.Op
					o.Payload = wl.Payload
					randMsgProps(rng, &o)
					wl.ContentType, wl.User, wl.RespTopic, wl.Corr, wl.PFmt = o.ContentType, o.UserProps, o.RespTopic, o.Corr, o.PFmt
				}
				if chance(rng, 0.2) {
					wl.ExpiryS = sim.U32(uint32(300 + rng.IntN(100)))
				}
			} else if !op.Clean {
				e = cfgExp
			}
			if chance(rng, 0.25) {
				op.KeepAlive = uint16(2 + rng.IntN(6))
			}
			ph1.Ops = append(ph1.Ops, op)
			mm := d
			if e < mm {
				mm = e
			}
			if mm > m {
				m = mm
			}
			// how the connection ends
			switch k := rng.IntN(12); {
			case k < 2:
				if chance(rng, 0.5) {
					// the DISCONNECT is not the only packet the broker has read when the connection goes away
					ph2.Ops = append(ph2.Ops, sim.Op{K: "publish", C: i, Topic: "x/pre", Payload: "pre", NoWait: true})
				}
				dop := sim.Op{K: "disconnect", C: i}
				if v5 && e == 0 && chance(rng, 0.4) {
					// protocol error (MQTT 5 3.14.2.2.2): a non-zero Session Expiry Interval in DISCONNECT when
					// CONNECT had none: not a normal disconnection, the will must be published
					dop.DiscExpS = sim.U32(uint32(pick(rng, []int{1, 4, 30})))
				}
				ph2.Ops = append(ph2.Ops, dop)
			case k < 3 && v5:
				dop := sim.Op{K: "disconnect", C: i, Code: 0x04}
				if e != 0 && chance(rng, 0.5) {
					// (0: the DISCONNECT ends the session, a delayed will is due at once)
					dop.DiscExpS = sim.U32(uint32(pick(rng, []int{0, 0, 1, 4, 30})))
				}
				ph2.Ops = append(ph2.Ops, dop)
			case k < 6:
				ph2.Ops = append(ph2.Ops, sim.Op{K: "cut", C: i, Mode: pick(rng, []string{"rst", "fin"})})
			case k < 7:
				// protocol error: a second CONNECT on the same connection
				ph2.Ops = append(ph2.Ops, sim.Op{K: "raw", C: i, Raw: mqttc.Encode(&mqttc.Packet{Type: mqttc.CONNECT, Level: 4, ClientID: "x", CleanStart: true}, 4)},
					sim.Op{K: "await_close", C: i, D: sim.Sec(3)}, sim.Op{K: "cut", C: i})
			case k < 8:
				ph2.Ops = append(ph2.Ops, sim.Op{K: "api_close", C: -1 - i, Target: p.Clients[i].ID})
			case k < 9:
				ph2.Ops = append(ph2.Ops, sim.Op{K: "api_terminate", C: -1 - i, Target: p.Clients[i].ID})
			case k < 11:
				// take-over
				ph2.Ops = append(ph2.Ops, sim.Op{K: "connect", C: i, Clean: chance(rng, 0.4), ExpiryS: op.ExpiryS})
			default:
				// keep-alive timeout or nothing: the clock jump decides
			}
			// what happens before / around the will deadline
			switch k := rng.IntN(6); {
			case k < 2:
				ph3.Ops = append(ph3.Ops, sim.Op{K: "connect", C: i, Clean: chance(rng, 0.3), ExpiryS: op.ExpiryS})
			case k < 3:
				ph3.Ops = append(ph3.Ops, sim.Op{K: "api_terminate", C: -1 - i, Target: p.Clients[i].ID})
			}
		}
		if !w2sub && chance(rng, 0.5) {
			ph3.Ops = append(ph3.Ops, sim.Op{K: "subscribe", C: W2, Subs: []mqttc.Sub{{Filter: "w/#", QoS: 1}}})
			w2sub = true
		}
		jump := func() sim.Dur {
			if m > 0 && chance(rng, 0.7) {
				d := m + pick(rng, []int{-3, -2, 2, 3, 15})
				if d > 0 {
					return sim.Sec(d)
				}
			}
			return sim.Sec(pick(rng, []int{0, 1, 4, 12, 30, 200}))
		}
		ph2.Advance = jump()
		ph3.Advance = sim.Sec(m + 25 + rng.IntN(100))
		p.Phases = append(p.Phases, ph1, ph2, ph3)
		// make sure every victim is offline before the next cycle
		var ph4 sim.Phase
		for i := 0; i < nv; i++ {
			ph4.Ops = append(ph4.Ops, sim.Op{K: "cut", C: i})
		}
		ph4.Advance = sim.Sec(cfgExp + 30 + 1000)
		p.Phases = append(p.Phases, ph4)
	}
	// long after every will has been published or cancelled: what a new subscriber is given as retained messages
	p.Clients = append(p.Clients, sim.ClientSpec{ID: "late", Ver: 4})
	p.Params = map[string]string{"late": "1"}
	p.Phases = append(p.Phases, sim.Phase{Ops: []sim.Op{{K: "connect", C: len(p.Clients) - 1, Clean: true}, {K: "subscribe", C: len(p.Clients) - 1, Subs: []mqttc.Sub{{Filter: "w/#", QoS: 1}}}}})
	maybeRedis(rng, p, 0.2)
	return p
}

func oracleC08(p *sim.Plan, out *sim.Outcome) []sim.Violation {
	vs := genericOracle(p, out)
	h := out.H
	cfgExp := 7200
	if p.Broker.SessionExpiryS != nil {
		cfgExp = *p.Broker.SessionExpiryS
	}
	nv := len(p.Clients) - 2
	late := -1
	if p.Params["late"] == "1" {
		nv--
		late = len(p.Clients) - 1
	}
	W, W2 := nv, nv+1
	const slack = 1500 * time.Millisecond
	type arrival struct {
		t   time.Duration
		pkt *mqttc.Packet
	}
	arr := map[string][]arrival{}
	arr2 := map[string][]arrival{}
	var w2subT time.Duration = -1
	for _, r := range h.Recs {
		if r.Kind == "rx" && r.Pkt.Type == mqttc.PUBLISH {
			if r.C == W {
				arr[string(r.Pkt.Payload)] = append(arr[string(r.Pkt.Payload)], arrival{r.T, r.Pkt})
			}
			if r.C == W2 {
				arr2[string(r.Pkt.Payload)] = append(arr2[string(r.Pkt.Payload)], arrival{r.T, r.Pkt})
			}
		}
		if r.Kind == "rx" && r.C == W2 && r.Pkt.Type == mqttc.SUBACK && w2subT < 0 {
			w2subT = r.T
		}
	}
	connOps := map[int]*sim.OpRec{}
	for _, o := range h.Ops {
		if o.Op.K == "connect" && o.Conn >= 0 {
			connOps[o.Conn] = o
		}
	}
	for vi := 0; vi < nv; vi++ {
		id := p.Clients[vi].ID
		v5 := p.Clients[vi].Ver == 5
		// session-level events of this client id in time order
		type ev struct {
			t       time.Duration
			kind    string // connack | end | terminate
			conn    int
			clean   bool
			present bool
		}
		var evs []ev
		endSeen := map[int]bool{}
		connackT := map[int]time.Duration{}
		discCode := map[int]int{}    // conn -> DISCONNECT reason code sent (-1 none)
		discExp := map[int]*uint32{} // conn -> expiry carried by DISCONNECT
		malformedDisc := map[int]bool{}
		for _, r := range h.Recs {
			if r.C == vi {
				switch {
				case r.Kind == "rx" && r.Pkt.Type == mqttc.CONNACK && r.Pkt.Code == 0:
					o := connOps[r.Conn]
					evs = append(evs, ev{t: r.T, kind: "connack", conn: r.Conn, clean: o.Op.Clean, present: r.Pkt.SessionPresent})
					connackT[r.Conn] = r.T
				case r.Kind == "tx" && r.Pkt.Type == mqttc.DISCONNECT:
					discCode[r.Conn] = int(r.Pkt.Code) + 1
					if r.Pkt.Props != nil {
						discExp[r.Conn] = r.Pkt.Props.SessionExpiry
					}
				case r.Kind == "cclose" || r.Kind == "bclose":
					if !endSeen[r.Conn] {
						endSeen[r.Conn] = true
						if _, ok := connackT[r.Conn]; ok {
							evs = append(evs, ev{t: r.T, kind: "end", conn: r.Conn})
						}
					}
				}
			}
			if r.Kind == "api_ret" && r.Note == "api_terminate" && h.Ops[r.Op].Op.Target == id {
				evs = append(evs, ev{t: r.T, kind: "terminate"})
			}
		}
		for i, e := range evs {
			if e.kind != "end" {
				continue
			}
			o := connOps[e.conn]
			wl := o.Op.Will
			if wl == nil || wl.Payload == "" {
				continue // (a will without payload cannot be attributed on the wire; its effect on the retained store is judged below)
			}
			// session expiry in force when the connection ended
			E := 0
			if v5 {
				if o.Op.ExpiryS != nil {
					E = int(*o.Op.ExpiryS)
					if E > cfgExp {
						E = cfgExp
					}
				}
				if x := discExp[e.conn]; x != nil {
					if E == 0 && *x != 0 {
						malformedDisc[e.conn] = true // protocol error: neither the expiry nor the will suppression applies
					} else {
						E = int(*x)
					}
				}
			} else if !o.Op.Clean {
				E = cfgExp
			}
			D := 0
			if v5 && wl.DelayS != nil {
				D = int(*wl.DelayS)
			}
			m := D
			if E < m {
				m = E
			}
			suppressed := false
			if dc := discCode[e.conn]; dc == 1 && !malformedDisc[e.conn] { // reason code 0x00 (or a v3 DISCONNECT)
				suppressed = true
			}
			// was the connection ended by a DISCONNECT whose delivery raced with the close? The scripted
			// client sends DISCONNECT and then FIN, so a transmitted DISCONNECT was processed first.
			expectT := e.t + time.Duration(m)*time.Second
			expect := "once"
			why := fmt.Sprintf("connection %d of %s ended at %v, will delay %ds, session expiry %ds", e.conn, id, e.t, D, E)
			killed := false
			// a TerminateSession that hit this connection: recorded after this connection's CONNACK, with
			// no other CONNACK of the client id in between, and at most an instant before the end
			for j := i - 1; j >= 0; j-- {
				f := evs[j]
				if f.kind == "connack" {
					break
				}
				if f.kind == "terminate" && f.t >= e.t-time.Millisecond {
					killed = true
				}
			}
			if suppressed {
				expect = "none"
				why += ", ended by DISCONNECT 0x00"
			} else if killed {
				expectT = e.t
				why += ", session terminated administratively while connected"
			} else {
				// something may end the session or re-attach before the deadline
				for _, f := range evs[i+1:] {
					if f.t > expectT+slack {
						break
					}
					near := f.t > expectT-slack
					switch f.kind {
					case "terminate":
						if near {
							expect = "may"
						} else {
							expectT = f.t
							why += fmt.Sprintf(", session terminated administratively at %v", f.t)
						}
					case "connack":
						switch {
						case near && m > 0:
							expect = "may"
						case m == 0 || f.t > expectT:
							// already due at connection end
						case f.clean || !f.present:
							expectT = f.t
							why += fmt.Sprintf(", session ended by a new CONNECT at %v", f.t)
						default:
							expect = "none"
							why += fmt.Sprintf(", session re-attached at %v before the delay passed", f.t)
						}
					}
					if f.kind != "end" {
						break
					}
				}
			}
			// take-over: the connection was ended by the broker because of a newer CONNECT; then end
			// and CONNACK carry (almost) the same time and the order above is decided by the list order.
			got := arr[wl.Payload]
			if len(got) > 1 {
				vs = append(vs, viol("C08", "exactly_once", "twice", "will %q published %d times (%s)", wl.Payload, len(got), why))
				continue
			}
			switch expect {
			case "none":
				if len(got) != 0 {
					sig := "after-normal-disconnect"
					if !suppressed {
						sig = "after-reattach"
					}
					vs = append(vs, viol("C08", "cancel", sig, "will %q was published at %v although it must not be: %s", wl.Payload, got[0].t, why))
				}
			case "once":
				if len(got) == 0 {
					sig := "missing"
					if dc := discCode[e.conn]; dc == 5 {
						sig = "missing-after-disconnect-0x04"
					}
					vs = append(vs, viol("C08", "exactly_once", sig, "will %q was never published: %s; expected at about %v", wl.Payload, why, expectT))
					continue
				}
				a := got[0]
				if a.t < expectT-slack {
					vs = append(vs, viol("C08", "when", "early", "will %q published at %v, expected at %v: %s", wl.Payload, a.t, expectT, why))
				} else if a.t > expectT+slack {
					vs = append(vs, viol("C08", "when", "late", "will %q published at %v, expected at %v: %s", wl.Payload, a.t, expectT, why))
				}
				// content
				pk := a.pkt
				if pk.Topic != wl.Topic {
					vs = append(vs, viol("C08", "content", "topic", "will %q published on topic %q, registered %q", wl.Payload, pk.Topic, wl.Topic))
				}
				if pk.QoS != wl.QoS {
					vs = append(vs, viol("C08", "content", "qos", "will %q delivered at QoS %d to a QoS 2 subscription, registered QoS %d", wl.Payload, pk.QoS, wl.QoS))
				}
				if pk.Retain != wl.Retain {
					vs = append(vs, viol("C08", "content", "retain", "will %q delivered to a Retain-As-Published subscription with RETAIN=%v, registered retain=%v", wl.Payload, pk.Retain, wl.Retain))
				}
				if v5 {
					wop := sim.Op{ContentType: wl.ContentType, UserProps: wl.User, RespTopic: wl.RespTopic, Corr: wl.Corr, PFmt: wl.PFmt}
					if d := msgPropsMismatch(&wop, true, pk); d != "" {
						vs = append(vs, viol("C08", "content", "properties", "will %q delivered with %s", wl.Payload, d))
					}
					if wl.ExpiryS != nil && (pk.Props == nil || pk.Props.MessageExpiry == nil) {
						vs = append(vs, viol("C08", "content", "message-expiry", "will %q lost its message expiry interval", wl.Payload))
					}
				} else if pk.Props != nil && (pk.Props.ContentType != nil || len(pk.Props.User) > 0 || pk.Props.ResponseTopic != nil || len(pk.Props.CorrelationData) > 0) {
					vs = append(vs, viol("C08", "content", "properties", "will %q of an MQTT 3 client delivered with properties nobody registered: %s", wl.Payload, pk))
				}
				// then-matching subscribers: the second watcher, if it subscribed well before
				if w2subT >= 0 && w2subT < a.t-slack && len(arr2[wl.Payload]) == 0 {
					vs = append(vs, viol("C08", "exactly_once", "then-matching", "will %q was not delivered to a subscriber that subscribed at %v, before the will was published at %v", wl.Payload, w2subT, a.t))
				}
			}
		}
		// wills of connections that never ended, or were never established, must not appear
		for _, o := range h.Ops {
			if o.Op.K == "connect" && o.Op.C == vi && o.Op.Will != nil {
				if _, ok := connackT[o.Conn]; !ok && len(arr[o.Op.Will.Payload]) > 0 {
					vs = append(vs, viol("C08", "exactly_once", "never-connected", "will %q of a connection that was never acknowledged was published", o.Op.Will.Payload))
				}
			}
		}
	}
	// C08.content [retained]: a will with Will Retain is a retained publication: the watcher (Retain As Published) saw
	// every will with its flag, so the last retained one per topic is what a later subscriber must be given —
	// nothing when that one had no payload
	if late >= 0 {
		lastRet := map[string]string{}
		for _, r := range h.Recs {
			if r.Kind == "rx" && r.C == W && r.Pkt.Type == mqttc.PUBLISH && r.Pkt.Retain {
				lastRet[r.Pkt.Topic] = string(r.Pkt.Payload)
			}
		}
		subT := time.Duration(-1)
		got := map[string][]string{}
		for _, r := range h.Recs {
			if r.C != late || r.Kind != "rx" {
				continue
			}
			if r.Pkt.Type == mqttc.SUBACK {
				subT = r.T
			}
			if r.Pkt.Type == mqttc.PUBLISH {
				got[r.Pkt.Topic] = append(got[r.Pkt.Topic], string(r.Pkt.Payload))
			}
		}
		quiet := subT >= 0
		for _, r := range h.Recs {
			if r.Kind == "rx" && r.C == W && r.Pkt.Type == mqttc.PUBLISH && subT >= 0 && r.T >= subT-slack {
				quiet = false // a will was still being published around the late subscription: not judged
			}
		}
		if quiet {
			for t, pl := range lastRet {
				switch {
				case pl == "" && len(got[t]) > 0:
					vs = append(vs, viol("C08", "content", "retained-not-cleared", "the last retained will on %q had an empty payload (it clears the retained message), but a later subscriber was given %q", t, got[t]))
				case pl != "" && (len(got[t]) != 1 || got[t][0] != pl):
					vs = append(vs, viol("C08", "content", "retained-not-stored", "the last retained will on %q was %q, a later subscriber was given %q", t, pl, got[t]))
				}
			}
			for t := range got {
				if _, ok := lastRet[t]; !ok {
					vs = append(vs, viol("C08", "content", "retained-unexpected", "a later subscriber was given %q on %q although no retained will was published there", got[t], t))
				}
			}
		}
	}
	return vs
}
