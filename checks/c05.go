package checks

import (
	"fmt"
	"math/rand/v2"
	"time"

	"verifsim/mqttc"
	"verifsim/sim"
)

// C05: session lifecycle — resume iff it should, one connection per client id.

func init() {
	register(&Check{ID: "C05", Gen: genC05, Oracle: oracleC05,
		Nontrivial: func(p *sim.Plan, out *sim.Outcome) bool {
			n := 0
			for _, r := range out.H.Recs {
				if r.Kind == "rx" && r.Pkt.Type == mqttc.CONNACK {
					n++
				}
			}
			return n >= 3
		}})
}

const c05Cfg = 100 // configured session expiry (seconds) in most runs

func genC05(rng *rand.Rand, tier string) *sim.Plan {
	p := NewPlan("C05", rng.Uint64(), rng)
	cfgExp := pick(rng, []int{c05Cfg, 30, 7200, 0})
	p.Broker.SessionExpiryS = sim.Int(cfgExp)
	nc := 1 + rng.IntN(3)
	for i := 0; i < nc; i++ {
		p.Clients = append(p.Clients, sim.ClientSpec{ID: fmt.Sprintf("c%d", i), Ver: pick(rng, []byte{4, 5, 5})})
	}
	obs := nc
	p.Clients = append(p.Clients, sim.ClientSpec{ID: "obs", Ver: 4})
	p.Phases = append(p.Phases, sim.Phase{Ops: []sim.Op{{K: "connect", C: obs, Clean: true}}})
	steps := 4 + rng.IntN(6)
	if tier == "thorough" {
		steps = 4 + rng.IntN(14)
	}
	type st struct {
		online bool
		exp    uint32 // model guess of current expiry, to place jumps near it
	}
	state := make([]st, nc)
	msg := 0
	expChoices := []uint32{0, 1, 3, 10, 40, 100, 5000, 0xFFFFFFFF}
	for s := 0; s < steps; s++ {
		var ph sim.Phase
		maxExp := uint32(0)
		for i := 0; i < nc; i++ {
			v5 := p.Clients[i].Ver == 5
			if !chance(rng, 0.8) {
				continue
			}
			stt := &state[i]
			connect := func(clean bool) sim.Op {
				op := sim.Op{K: "connect", C: i, Clean: clean}
				if v5 {
					if chance(rng, 0.85) {
						e := pick(rng, expChoices)
						op.ExpiryS = &e
						stt.exp = e
						if int64(e) > int64(cfgExp) {
							stt.exp = uint32(cfgExp)
						}
					} else {
						stt.exp = 0
					}
				} else if clean {
					stt.exp = 0
				} else {
					stt.exp = uint32(cfgExp)
				}
				if chance(rng, 0.2) {
					op.KeepAlive = uint16(2 + rng.IntN(8))
				}
				return op
			}
			if !stt.online {
				ph.Ops = append(ph.Ops, connect(chance(rng, 0.3)))
				stt.online = true
				if chance(rng, 0.6) {
					ph.Ops = append(ph.Ops, sim.Op{K: "subscribe", C: i, Subs: []mqttc.Sub{{Filter: fmt.Sprintf("s/%d", i), QoS: 1}}})
				}
				continue
			}
			switch k := rng.IntN(10); {
			case k < 3:
				op := sim.Op{K: "disconnect", C: i}
				if v5 && stt.exp != 0 && chance(rng, 0.4) {
					e := pick(rng, expChoices)
					op.DiscExpS = &e
					stt.exp = e
				}
				ph.Ops = append(ph.Ops, op)
				stt.online = false
			case k < 5:
				ph.Ops = append(ph.Ops, sim.Op{K: "cut", C: i, Mode: pick(rng, []string{"rst", "fin"})})
				stt.online = false
			case k < 6:
				ph.Ops = append(ph.Ops, sim.Op{K: "api_terminate", C: -1 - i, Target: p.Clients[i].ID})
				stt.online = false
				stt.exp = 0
			case k < 8:
				// take-over: one or two more CONNECTs with the same client id while the old connection is up
				ph.Ops = append(ph.Ops, connect(chance(rng, 0.3)))
				if chance(rng, 0.3) {
					ph.Ops[len(ph.Ops)-1].NoWait = true
					ph.Ops = append(ph.Ops, connect(chance(rng, 0.3)))
				}
			default:
				ph.Ops = append(ph.Ops, sim.Op{K: "subscribe", C: i, Subs: []mqttc.Sub{{Filter: fmt.Sprintf("s/%d", i), QoS: 1}}})
			}
			if !stt.online && stt.exp > maxExp && stt.exp != 0xFFFFFFFF {
				maxExp = stt.exp
			}
		}
		// probes to every client's topic (online: live delivery, offline: queued)
		for i := 0; i < nc; i++ {
			if chance(rng, 0.6) {
				msg++
				ph.Ops = append(ph.Ops, sim.Op{K: "publish", C: obs, Topic: fmt.Sprintf("s/%d", i), QoS: 1, Payload: fmt.Sprintf("p%d", msg)})
			}
		}
		// clock jump placed around an expiry instant, or long connection durations
		switch k := rng.IntN(8); {
		case k < 3 && maxExp > 0:
			d := int64(maxExp) + int64(pick(rng, []int{-4, -3, 3, 4, 25, 50}))
			if d > 0 && d < 100000 {
				ph.Advance = sim.Sec(int(d))
			}
		case k < 5:
			ph.Advance = sim.Sec(pick(rng, []int{1, 5, 20, 60, 150, 8000}))
		}
		p.Phases = append(p.Phases, ph)
	}
	maybeRedis(rng, p, 0.2)
	if chance(rng, 0.3) {
		// clients without a client identifier: the broker makes one up for each; they are different sessions and do
		// not displace each other however their CONNECTs interleave
		a := len(p.Clients)
		va, vb := pick(rng, []byte{4, 5}), pick(rng, []byte{4, 5})
		p.Clients = append(p.Clients, sim.ClientSpec{ID: "anonA", Ver: va}, sim.ClientSpec{ID: "anonB", Ver: vb})
		if p.Params == nil {
			p.Params = map[string]string{}
		}
		p.Params["anon"] = "2"
		empty := ""
		ph := sim.Phase{Ops: []sim.Op{
			{K: "connect", C: a, Clean: true, ClientID: &empty, NoWait: true}, {K: "connect", C: a + 1, Clean: true, ClientID: &empty},
			{K: "subscribe", C: a, Subs: []mqttc.Sub{{Filter: "anon/x", QoS: 1}}}, {K: "subscribe", C: a + 1, Subs: []mqttc.Sub{{Filter: "anon/x", QoS: 1}}}}}
		pr := sim.Phase{Ops: []sim.Op{{K: "publish", C: obs, Topic: "anon/x", QoS: 1, Payload: "anon-probe"}}}
		at := 1 + rng.IntN(len(p.Phases))
		p.Phases = append(p.Phases[:at:at], append([]sim.Phase{ph, pr}, p.Phases[at:]...)...)
	}
	return p
}

type c05sess struct {
	exists  bool
	expiry  uint32
	connUp  int // connection attached (-1 none)
	endLo   time.Duration
	endHi   time.Duration
	subbed  bool
	fresh   bool     // true while no subscription was made in this session
	pending []string // probes published while the client was offline and the session existed
	discExp *uint32
}

func oracleC05(p *sim.Plan, out *sim.Outcome) []sim.Violation {
	vs := genericOracle(p, out)
	h := out.H
	bcloseStep := map[int]int{} // connection -> step at which the broker closed its side
	for _, r := range h.Recs {
		if r.Kind == "bclose" {
			if _, ok := bcloseStep[r.Conn]; !ok {
				bcloseStep[r.Conn] = r.Step
			}
		}
	}
	cfgExp := uint32(7200)
	if p.Broker.SessionExpiryS != nil {
		cfgExp = uint32(*p.Broker.SessionExpiryS)
	}
	nAnon := 0
	fmt.Sscan(p.Params["anon"], &nAnon)
	nc := len(p.Clients) - 1 - nAnon
	obs := nc
	if nAnon == 2 {
		vs = append(vs, c05anon(p, h, nc+1)...)
	}
	// ops by connection / per client bookkeeping
	connectOp := map[int]*sim.OpRec{} // conn -> connect op
	for _, o := range h.Ops {
		if o.Op.K == "connect" && o.Conn >= 0 {
			connectOp[o.Conn] = o
		}
	}
	const slack = 2 * time.Second
	pends := phaseEnds(h)
	cends := connEnds(h)
	staysUp := func(conn, phase int) bool {
		pe, ok := pends[phase]
		if !ok {
			return false
		}
		e, closed := cends[conn]
		return !closed || e > pe
	}
	for ci := 0; ci < nc; ci++ {
		id := p.Clients[ci].ID
		s := &c05sess{connUp: -1}
		topic := fmt.Sprintf("s/%d", ci)
		connClosed := map[int]bool{}
		mustGet := map[string]string{}    // payload -> why it must be delivered
		mustNotGet := map[string]string{} // payload -> why it must never be delivered
		got := map[string]int{}
		// concurrent connects of the same id make the attach order ambiguous
		ambiguous := map[int]bool{}
		var cops []*sim.OpRec
		for _, o := range h.Ops {
			if o.Op.K == "connect" && o.Op.C == ci && o.Inv >= 0 {
				cops = append(cops, o)
			}
		}
		for i, a := range cops {
			for j, b := range cops {
				if i != j && !(a.Resp >= 0 && a.Resp < b.Inv) && !(b.Resp >= 0 && b.Resp < a.Inv) {
					ambiguous[a.Conn] = true
				}
			}
		}
		inDoubt := false
		sessionEnd := func(why string) {
			s.exists = false
			s.subbed = false
			for _, pl := range s.pending {
				mustNotGet[pl] = why
			}
			s.pending = nil
		}
		expireIfDue := func(now time.Duration) (definitely, possibly bool) {
			if !s.exists || s.connUp >= 0 || s.expiry == 0xFFFFFFFF {
				return false, false
			}
			e := time.Duration(s.expiry) * time.Second
			if now > s.endHi+e+slack {
				return true, true
			}
			if now >= s.endLo+e-slack {
				return false, true
			}
			return false, false
		}
		for _, r := range h.Recs {
			switch {
			case r.Kind == "tx" && r.C == ci && r.Pkt.Type == mqttc.DISCONNECT:
				if r.Conn == s.connUp && r.Pkt.Props != nil && r.Pkt.Props.SessionExpiry != nil {
					s.discExp = r.Pkt.Props.SessionExpiry
				}
			case (r.Kind == "cclose" || r.Kind == "bclose") && r.C == ci:
				if r.Conn == s.connUp && !connClosed[r.Conn] {
					// end of the attached connection
					// the DISCONNECT counts when the client closed after sending it, or when the broker closed the
					// connection after the packet had been handed to it (a broker may close right after reading a
					// DISCONNECT) and nothing else was closing that connection at the time
					discDelivered := false
					for _, o := range h.Ops {
						if o.Op.K == "disconnect" && o.Conn == r.Conn && o.Inv >= 0 && o.Inv <= r.Step && !ambiguous[r.Conn] {
							discDelivered = true
						}
					}
					if s.discExp != nil && (r.Kind == "cclose" || discDelivered) {
						s.expiry = *s.discExp
						if s.expiry > cfgExp {
							// the broker may cap it; both readings are acceptable
							inDoubt = true
						}
					}
					s.discExp = nil
					s.connUp = -1
					s.endLo, s.endHi = r.T, r.T
					if s.expiry == 0 {
						sessionEnd("session ended at disconnect (expiry 0)")
					}
				} else if connClosed[r.Conn] && s.connUp == -1 && r.T > s.endHi {
					s.endHi = r.T
				}
				connClosed[r.Conn] = true
			case r.Kind == "api_ret" && r.Note == "api_terminate":
				o := h.Ops[r.Op]
				if o.Op.Target == id {
					sessionEnd("session terminated administratively")
					s.connUp = -1
				}
			case r.Kind == "rx" && r.C == ci && r.Pkt.Type == mqttc.CONNACK:
				o := connectOp[r.Conn]
				if o == nil || r.Pkt.Code != 0 {
					continue
				}
				op := o.Op
				def, poss := expireIfDue(r.T)
				if def {
					sessionEnd("session expired")
				}
				expect := "may"
				switch {
				case ambiguous[r.Conn] || inDoubt:
					expect = "may"
				case op.Clean:
					expect = "no"
				case !s.exists:
					expect = "no"
				case s.connUp >= 0:
					expect = "yes"
				case poss:
					expect = "may"
				default:
					expect = "yes"
				}
				gotSP := r.Pkt.SessionPresent
				if expect == "yes" && !gotSP {
					sig := "lost-session"
					if s.connUp >= 0 {
						sig = "lost-session-takeover"
					}
					vs = append(vs, viol("C05", "present", sig, "client %s: CONNECT(clean=0) at t=%v answered Session Present=0 although its session (expiry %ds, last connection ended at %v, attached conn %d) had not ended", id, r.T, s.expiry, s.endHi, s.connUp))
				}
				if expect == "no" && gotSP {
					vs = append(vs, viol("C05", "present", "ghost-session", "client %s: CONNECT(clean=%v) at t=%v answered Session Present=1 although no session should exist (exists=%v)", id, op.Clean, r.T, s.exists))
				}
				// follow the broker's answer where the model is in doubt, the model otherwise
				// the model follows the broker's answer from here on, so that one wrong Session Present
				// is reported once and not again as lost / ghost messages
				resumed := gotSP
				if resumed {
					for _, pl := range s.pending {
						if expect == "yes" && s.subbed && staysUp(r.Conn, o.Phase) {
							mustGet[pl] = fmt.Sprintf("queued for the session resumed at t=%v", r.T)
						}
					}
					s.pending = nil
				} else {
					sessionEnd(fmt.Sprintf("session replaced by a new one at t=%v (clean=%v)", r.T, op.Clean))
				}
				if expect == "may" {
					inDoubt = true // from here on only the safety clauses are judged for this client
				}
				s.exists = true
				s.connUp = r.Conn
				if p.Clients[ci].Ver == 5 {
					s.expiry = 0
					if op.ExpiryS != nil {
						s.expiry = *op.ExpiryS
						if s.expiry > cfgExp {
							s.expiry = cfgExp
						}
					}
				} else if op.Clean {
					s.expiry = 0
				} else {
					s.expiry = cfgExp
				}
			case r.Kind == "rx" && r.C == ci && r.Pkt.Type == mqttc.SUBACK:
				if r.Conn == s.connUp && len(r.Pkt.Codes) > 0 && r.Pkt.Codes[0] < 0x80 {
					s.subbed = true
				}
			case r.Kind == "rx" && r.C == ci && r.Pkt.Type == mqttc.PUBLISH:
				got[string(r.Pkt.Payload)]++
			case r.Kind == "rx" && r.C == obs && r.Pkt.Type == mqttc.PUBACK:
				// a probe was accepted by the broker: find which
			}
			// probes: judged when the observer's PUBLISH is acknowledged
			if r.Kind == "rx" && r.C == obs && r.Pkt.Type == mqttc.PUBACK {
				for _, o := range h.Ops {
					if o.Op.K == "publish" && o.Op.C == obs && o.Op.Topic == topic && o.Resp == r.Step && o.Ack == r.Pkt {
						pl := o.Op.Payload
						if inDoubt {
							break
						}
						overl := false
						for _, x := range h.Ops {
							if x == o || x.Inv < 0 || !(x.Op.C == ci || x.Op.Target == id) {
								continue
							}
							xr := x.Resp
							if (x.Op.K == "cut" || x.Op.K == "disconnect") && x.Conn >= 0 {
								// the broker acts on the end of a connection when IT notices it (a half-closed
								// connection can still be written to): the operation lasts until then
								if b, ok := bcloseStep[x.Conn]; ok && b > xr {
									xr = b
								} else if !ok {
									xr = -1
								}
							}
							if !(xr >= 0 && xr < o.Inv) && !(x.Inv > o.Resp) {
								overl = true
							}
						}
						if overl {
							break // the probe raced with an operation of this client: no claim
						}
						def, poss := expireIfDue(r.T)
						switch {
						case !s.exists || def:
							mustNotGet[pl] = "published while no session existed"
						case !s.subbed:
							mustNotGet[pl] = "published while the session had no subscription"
						case s.connUp >= 0:
							// online and subscribed: the window between invoke and ack must not contain a change
							if sp := connectOp[s.connUp]; sp != nil && sp.Resp < o.Inv && staysUp(s.connUp, o.Phase) {
								mustGet[pl] = "client online and subscribed"
							}
						case poss:
						default:
							s.pending = append(s.pending, pl)
						}
					}
				}
			}
		}
		if !inDoubt {
			for pl, why := range mustGet {
				if got[pl] == 0 {
					if _, bad := mustNotGet[pl]; bad {
						continue
					}
					vs = append(vs, viol("C05", "state", "lost-message", "client %s never received %q: %s", id, pl, why))
				}
			}
		}
		for pl, why := range mustNotGet {
			if _, ok := mustGet[pl]; ok {
				continue
			}
			if got[pl] > 0 && !inDoubt {
				vs = append(vs, viol("C05", "state", "ghost-message", "client %s received %q although %s", id, pl, why))
			}
		}
		// C05.single / displace_order / no_late_delivery
		type ci2 struct {
			conn, connackStep, endStep int
		}
		ends := connEnds(h)
		bEnds := map[int]int{}
		for _, r := range h.Recs {
			if r.Kind == "bclose" {
				bEnds[r.Conn] = r.Step
			}
		}
		var cs []ci2
		for _, r := range h.Recs {
			if r.Kind == "rx" && r.C == ci && r.Pkt.Type == mqttc.CONNACK && r.Pkt.Code == 0 {
				e, ok := ends[r.Conn]
				if !ok {
					e = 1 << 60
				}
				cs = append(cs, ci2{r.Conn, r.Step, e})
			}
		}
		for i := range cs {
			for j := range cs {
				a, b := cs[i], cs[j]
				if a.connackStep < b.connackStep && a.endStep > b.connackStep {
					vs = append(vs, viol("C05", "single", "two-attached", "client id %s: connection %d was acknowledged at step %d while connection %d (acknowledged at step %d) was still open (closed at step %d)", id, b.conn, b.connackStep, a.conn, a.connackStep, a.endStep))
				}
			}
		}
		for _, r := range h.Recs {
			if r.Kind == "rx" && r.C == ci {
				for _, b := range cs {
					for _, a := range cs {
						if a.conn == r.Conn && a.connackStep < b.connackStep && r.Step > b.connackStep {
							vs = append(vs, viol("C05", "no_late_delivery", "late", "client id %s: %s written to displaced connection %d at step %d after connection %d was acknowledged at step %d", id, r.Pkt, r.Conn, r.Step, b.conn, b.connackStep))
						}
					}
				}
			}
		}
	}
	return vs
}

// c05anon judges the two clients that connect with a zero-length client identifier (C05.anonymous).
func c05anon(p *sim.Plan, h *sim.History, a int) []sim.Violation {
	var vs []sim.Violation
	assigned := map[int]string{}
	okc := map[int]bool{}
	conn := map[int]int{}
	for _, o := range h.Ops {
		if o.Op.K == "connect" && (o.Op.C == a || o.Op.C == a+1) {
			conn[o.Op.C] = o.Conn
			if o.Ack == nil {
				continue // nothing to judge (run ended / connection lost before the answer)
			}
			if o.Ack.Code != 0 {
				vs = append(vs, viol("C05", "anonymous", "refused", "CONNECT with a zero-length client identifier and Clean Start 1 (client %d, MQTT level %d) was refused with 0x%02x", o.Op.C, p.Clients[o.Op.C].Ver, o.Ack.Code))
				continue
			}
			okc[o.Op.C] = true
			if o.Ack.SessionPresent {
				vs = append(vs, viol("C05", "anonymous", "session-present", "CONNECT with a zero-length client identifier was answered with Session Present 1"))
			}
			if p.Clients[o.Op.C].Ver == 5 {
				if o.Ack.Props == nil || o.Ack.Props.AssignedClientID == nil || *o.Ack.Props.AssignedClientID == "" {
					vs = append(vs, viol("C05", "anonymous", "no-assigned-id", "MQTT 5 CONNECT with a zero-length client identifier: CONNACK carries no Assigned Client Identifier"))
				} else {
					assigned[o.Op.C] = *o.Ack.Props.AssignedClientID
				}
			}
		}
	}
	if len(assigned) == 2 && assigned[a] == assigned[a+1] {
		vs = append(vs, viol("C05", "anonymous", "same-assigned-id", "two clients without a client identifier were both assigned %q", assigned[a]))
	}
	if !(okc[a] && okc[a+1]) {
		return vs
	}
	// neither is displaced, both are served: the probe published after both SUBACKs reaches both
	subOK := map[int]bool{}
	for _, o := range h.Ops {
		if o.Op.K == "subscribe" && (o.Op.C == a || o.Op.C == a+1) && o.Ack != nil {
			subOK[o.Op.C] = true
		}
	}
	got := map[int]int{}
	for _, r := range h.Recs {
		if r.Kind == "rx" && (r.C == a || r.C == a+1) && r.Pkt.Type == mqttc.PUBLISH && string(r.Pkt.Payload) == "anon-probe" {
			got[r.C]++
		}
		if r.Kind == "bclose" && (r.C == a || r.C == a+1) && r.Conn == conn[r.C] && !finalPhase(h, r.Step) {
			vs = append(vs, viol("C05", "anonymous", "displaced", "the connection of a client without a client identifier (client %d) was closed by the broker", r.C))
			return vs
		}
	}
	probed := false
	for _, o := range h.Ops {
		if o.Op.K == "publish" && o.Op.Payload == "anon-probe" && o.Ack != nil {
			probed = true
		}
	}
	if probed && subOK[a] && subOK[a+1] {
		for _, c := range []int{a, a + 1} {
			if got[c] != 1 {
				vs = append(vs, viol("C05", "anonymous", "not-served", "client %d (no client identifier) received the probe %d times after its SUBACK; the two anonymous clients must be separate sessions", c, got[c]))
			}
		}
	}
	return vs
}
