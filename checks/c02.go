package checks

import (
	"fmt"
	"math/rand/v2"
	"sort"
	"strings"

	"github.com/DrmagicE/gmqtt"
	"github.com/DrmagicE/gmqtt/persistence/subscription"
	"github.com/DrmagicE/gmqtt/pkg/packets"

	"verifsim/model"
	"verifsim/mqttc"
	"verifsim/sim"
)

// C02: the subscription index answers match MQTT topic-matching rules after any history.

var c02Topics = []string{"a", "b", "a/b", "a/c", "a/b/c", "b/c", "a/", "/a", "a//b", "c", "$SYS/x", "$x/a", "a/b/c/d", "/", "//", "$SYS", "a/b/", "$x"}
var c02Filters = []string{"a", "b", "a/b", "a/c", "a/b/c", "b/c", "a/", "/a", "a//b", "#", "+", "a/#", "a/+", "+/b", "+/+", "a/b/#", "a/+/c", "+/#", "/+", "+/", "a/+/+", "$SYS/#", "$SYS/+", "$x/a", "c", "a/b/c/d", "a/b/c/#", "/#", "/", "+/+/#", "$x/#", "$SYS",
	"$share/g/a/#", "$share/g/#", "$share/h/a/#", "$share/g/a/b", "$share/g/$SYS/#", "$share/g/+/b"}

type c02Entry struct {
	Client string
	Sub    sim.SubView
}

type c02Dump struct {
	ByTopic  map[string][]c02Entry // MatchFilter, all types
	ByFilter map[string][]c02Entry // MatchName
	ByClient map[string][]c02Entry
	All      []c02Entry
	Current  uint64
	PerCli   map[string]uint64
	PerCliOK map[string]bool
	TMatch   map[string]bool // "topic|filter" -> packets.TopicMatch
	// Combos holds the results of the remaining IterationOptions shapes: key "client|type|match|name" with
	// client "" = any, type all / shared / nonshared / sys, match filter / name / none
	Combos map[string][]c02Entry
}

func c02ids(p *sim.Plan) []string {
	var ids []string
	for _, c := range p.Clients {
		ids = append(ids, c.ID)
	}
	return append(ids, "ghost") // a client id that never connects (API subscriptions only)
}

func init() {
	register(&Check{ID: "C02", Gen: genC02, Oracle: oracleC02,
		Setup: func(p *sim.Plan) *sim.Setup {
			return &sim.Setup{Custom: map[string]func(w *sim.World, op *sim.Op) any{
				"sub_dump": func(w *sim.World, op *sim.Op) any {
					ss := w.Nodes[0].Srv.SubscriptionService()
					d := &c02Dump{ByTopic: map[string][]c02Entry{}, ByFilter: map[string][]c02Entry{}, ByClient: map[string][]c02Entry{}, PerCli: map[string]uint64{}, PerCliOK: map[string]bool{}, TMatch: map[string]bool{}}
					collect := func(dst *[]c02Entry) subscription.IterateFn {
						return func(clientID string, s *gmqtt.Subscription) bool {
							*dst = append(*dst, c02Entry{clientID, sim.SubView{Client: clientID, Share: s.ShareName, Filter: s.TopicFilter, QoS: s.QoS, NoLocal: s.NoLocal, RAP: s.RetainAsPublished, RH: s.RetainHandling, ID: s.ID}})
							return true
						}
					}
					for _, t := range c02Topics {
						var l []c02Entry
						ss.Iterate(collect(&l), subscription.IterationOptions{Type: subscription.TypeAll, MatchType: subscription.MatchFilter, TopicName: t})
						d.ByTopic[t] = l
					}
					for _, f := range c02Filters {
						var l []c02Entry
						ss.Iterate(collect(&l), subscription.IterationOptions{Type: subscription.TypeAll, MatchType: subscription.MatchName, TopicName: f})
						d.ByFilter[f] = l
					}
					for _, id := range c02ids(w.Plan) {
						var l []c02Entry
						ss.Iterate(collect(&l), subscription.IterationOptions{Type: subscription.TypeAll, ClientID: id})
						d.ByClient[id] = l
						st, err := ss.GetClientStats(id)
						d.PerCli[id] = st.SubscriptionsCurrent
						d.PerCliOK[id] = err == nil
					}
					ss.Iterate(collect(&d.All), subscription.IterationOptions{Type: subscription.TypeAll})
					// the other shapes: a client id combined with a match, and every iteration type on its own
					d.Combos = map[string][]c02Entry{}
					types := map[string]subscription.IterationType{"all": subscription.TypeAll, "shared": subscription.TypeShared, "nonshared": subscription.TypeNonShared, "sys": subscription.TypeSYS}
					tnames := []string{"all", "nonshared", "shared", "sys"}
					run := func(cid, tn, mt, name string) {
						o := subscription.IterationOptions{Type: types[tn], ClientID: cid, TopicName: name}
						switch mt {
						case "filter":
							o.MatchType = subscription.MatchFilter
						case "name":
							o.MatchType = subscription.MatchName
						}
						var l []c02Entry
						ss.Iterate(collect(&l), o)
						d.Combos[cid+"|"+tn+"|"+mt+"|"+name] = l
					}
					pickN := func(l []string, k int) string { return l[(w.S.StepCnt+k)%len(l)] }
					for i, id := range c02ids(w.Plan) {
						run(id, "all", "filter", pickN(c02Topics, i))
						run(id, "all", "name", pickN(c02Filters, 3*i))
						run(id, tnames[1+i%3], "none", "")
						run(id, tnames[1+(i+1)%3], "filter", pickN(c02Topics, 5*i+1))
					}
					for i, tn := range tnames[1:] {
						run("", tn, "none", "")
						run("", tn, "filter", pickN(c02Topics, 7*i+2))
						run("", tn, "name", pickN(c02Filters, 11*i+3))
					}
					d.Current = ss.GetStats().SubscriptionsCurrent
					for _, t := range c02Topics {
						for _, f := range c02Filters {
							if sh, _ := model.SplitShare(f); sh == "" {
								d.TMatch[t+"|"+f] = packets.TopicMatch([]byte(t), []byte(f))
							}
						}
					}
					return d
				},
			}}
		},
		Nontrivial: func(p *sim.Plan, out *sim.Outcome) bool {
			n := 0
			for _, o := range out.H.Ops {
				if (o.Op.K == "subscribe" || o.Op.K == "api_subscribe") && o.Result == "ok" {
					n++
				}
			}
			return n >= 2
		}})
}

func genC02(rng *rand.Rand, tier string) *sim.Plan {
	p := NewPlan("C02", rng.Uint64(), rng)
	p.Broker.SessionExpiryS = sim.Int(300)
	nc := 1 + rng.IntN(4)
	exp := make([]uint32, nc)
	for i := 0; i < nc; i++ {
		p.Clients = append(p.Clients, sim.ClientSpec{ID: fmt.Sprintf("k%d", i), Ver: pick(rng, []byte{4, 5, 5})})
		exp[i] = pick(rng, []uint32{0, 200})
	}
	ids := c02ids(p)
	pool := []string{}
	for i := 0; i < 4+rng.IntN(6); i++ {
		pool = append(pool, pick(rng, c02Filters))
	}
	conn := func(i int, clean bool) sim.Op {
		op := sim.Op{K: "connect", C: i, Clean: clean}
		if p.Clients[i].Ver == 5 {
			if exp[i] != 0 {
				op.ExpiryS = sim.U32(exp[i])
			}
		} else if exp[i] != 0 {
			op.Clean = false
		}
		return op
	}
	var ph sim.Phase
	for i := 0; i < nc; i++ {
		ph.Ops = append(ph.Ops, conn(i, true))
	}
	dump := sim.Phase{Ops: []sim.Op{{K: "api_custom", C: -100, Custom: "sub_dump"}}}
	p.Phases = append(p.Phases, ph)
	online := make([]bool, nc)
	for i := range online {
		online[i] = true
	}
	rounds := 2 + rng.IntN(4)
	if tier == "thorough" {
		rounds = 2 + rng.IntN(8)
	}
	mkSubs := func(v5 bool) []mqttc.Sub {
		var ss []mqttc.Sub
		seen := map[string]bool{}
		for k := 0; k < 1+rng.IntN(3); k++ {
			s := randSub(rng, v5, pool)
			if seen[s.Filter] {
				continue
			}
			if sh, _ := model.SplitShare(s.Filter); sh != "" && !v5 {
				continue
			}
			seen[s.Filter] = true
			ss = append(ss, s)
		}
		if len(ss) == 0 {
			ss = append(ss, mqttc.Sub{Filter: "a/b", QoS: 1})
		}
		return ss
	}
	for r := 0; r < rounds; r++ {
		var ph sim.Phase
		for i := 0; i < nc; i++ {
			v5 := p.Clients[i].Ver == 5
			if !online[i] {
				if chance(rng, 0.5) {
					ph.Ops = append(ph.Ops, conn(i, chance(rng, 0.3)))
					online[i] = true
				}
				continue
			}
			for k := 0; k < rng.IntN(4); k++ {
				switch x := rng.IntN(10); {
				case x < 5:
					op := sim.Op{K: "subscribe", C: i, Subs: mkSubs(v5)}
					if v5 && chance(rng, 0.4) {
						op.SubID = uint32(1 + rng.IntN(9))
					}
					ph.Ops = append(ph.Ops, op)
				case x < 8:
					fs := []string{pick(rng, pool)}
					if chance(rng, 0.3) {
						fs = append(fs, pick(rng, pool))
					}
					ph.Ops = append(ph.Ops, sim.Op{K: "unsubscribe", C: i, Filters: fs})
				case x < 9:
					ph.Ops = append(ph.Ops, sim.Op{K: pick(rng, []string{"cut", "disconnect"}), C: i})
					online[i] = false
					k = 99
				default:
					ph.Ops = append(ph.Ops, conn(i, true)) // clean-start take-over
				}
			}
		}
		// API actors work on any client id, also one that never connects
		for a := 0; a < rng.IntN(3); a++ {
			id := pick(rng, ids)
			switch x := rng.IntN(6); {
			case x < 3:
				ph.Ops = append(ph.Ops, sim.Op{K: "api_subscribe", C: -1 - a, Target: id, Subs: mkSubs(true), SubID: uint32(rng.IntN(3))})
			case x < 5:
				ph.Ops = append(ph.Ops, sim.Op{K: "api_unsubscribe", C: -1 - a, Target: id, Filters: []string{pick(rng, pool)}})
			default:
				ph.Ops = append(ph.Ops, sim.Op{K: "api_unsuball", C: -1 - a, Target: id})
			}
		}
		if chance(rng, 0.15) {
			ph.Advance = sim.Sec(400)
		}
		p.Phases = append(p.Phases, ph, dump)
	}
	return p
}

func oracleC02(p *sim.Plan, out *sim.Outcome) []sim.Violation {
	vs := genericOracle(p, out)
	h := out.H
	ends := phaseEnds(h)
	ids := c02ids(p)
	cidx := map[string]int{}
	for i, id := range ids {
		cidx[id] = i
	}
	// timelines keyed by client index over ids (the ghost id included)
	tl := map[int]map[string][]model.Change{}
	add := func(c int, f string, ch model.Change) {
		if tl[c] == nil {
			tl[c] = map[string][]model.Change{}
		}
		tl[c][f] = append(tl[c][f], ch)
	}
	for _, o := range h.Ops {
		if o.Inv < 0 {
			continue
		}
		sp := model.Span{Inv: o.Inv, Resp: o.Resp}
		switch o.Op.K {
		case "subscribe":
			for i, s := range o.Op.Subs {
				if o.Ack == nil || i >= len(o.Ack.Codes) {
					// never acknowledged: may or may not be installed
					add(o.Op.C, s.Filter, model.Change{Span: model.Span{Inv: o.Inv, Resp: -1}, On: true, Val: subVal{s, s.QoS, 0}})
					continue
				}
				if o.Ack.Codes[i] >= 0x80 {
					continue
				}
				id := uint32(0)
				if p.Clients[o.Op.C].Ver == 5 {
					id = o.Op.SubID
				} else {
					s.NoLocal, s.RAP, s.RH = false, false, 0
				}
				add(o.Op.C, s.Filter, model.Change{Span: sp, On: true, Val: subVal{s, o.Ack.Codes[i], id}})
			}
		case "unsubscribe":
			for _, f := range o.Op.Filters {
				add(o.Op.C, f, model.Change{Span: sp, On: false})
			}
		case "api_subscribe":
			for _, s := range o.Op.Subs {
				add(cidx[o.Op.Target], s.Filter, model.Change{Span: sp, On: true, Val: subVal{s, s.QoS, o.Op.SubID}})
			}
		case "api_unsubscribe":
			for _, f := range o.Op.Filters {
				add(cidx[o.Op.Target], f, model.Change{Span: sp, On: false})
			}
		}
	}
	revokeAll := func(c int, sp model.Span) {
		for f := range tl[c] {
			tl[c][f] = append(tl[c][f], model.Change{Span: sp, On: false})
		}
	}
	connOps := map[int]*sim.OpRec{}
	for _, o := range h.Ops {
		if o.Op.K == "connect" && o.Conn >= 0 {
			connOps[o.Conn] = o
		}
	}
	closed := map[int]bool{}
	offline := map[int]int{}
	attached := map[int]int{}
	curPhase := -1
	for _, r := range h.Recs {
		if r.Kind == "phase" {
			var k int
			if n, _ := fmt.Sscanf(r.Note, "start %d", &k); n == 1 {
				curPhase = k
			}
		}
		switch r.Kind {
		case "cclose", "bclose":
			if closed[r.Conn] || r.C < 0 {
				continue
			}
			closed[r.Conn] = true
			cur := true
			for _, o := range h.Ops {
				if o.Op.K == "connect" && o.Op.C == r.C && o.Conn > r.Conn && o.Inv >= 0 && o.Inv <= r.Step {
					cur = false
				}
			}
			if !cur {
				continue
			}
			delete(attached, r.C)
			o := connOps[r.Conn]
			persistent := false
			if o != nil {
				if p.Clients[r.C].Ver == 5 {
					persistent = o.Op.ExpiryS != nil && *o.Op.ExpiryS != 0
				} else {
					persistent = !o.Op.Clean
				}
			}
			if !persistent {
				e, ok := ends[curPhase]
				if !ok {
					e = -1
				}
				revokeAll(r.C, model.Span{Inv: r.Step, Resp: e})
			} else {
				offline[r.C] = r.Step
			}
		case "rx":
			if r.Pkt.Type == mqttc.CONNACK && r.C >= 0 && r.Pkt.Code == 0 {
				_, wasOffline := offline[r.C]
				prev, wasAttached := attached[r.C]
				delete(offline, r.C)
				if o := connOps[r.Conn]; o != nil && (o.Op.Clean || !r.Pkt.SessionPresent) && (wasOffline || wasAttached && prev != r.Conn) {
					// the previous session is terminated: its subscriptions go. A clean start for an id
					// without a session terminates nothing, so subscriptions made through the API survive.
					revokeAll(r.C, model.Span{Inv: o.Inv, Resp: r.Step})
				}
				attached[r.C] = r.Conn
			}
		case "phase":
			var k int
			if n, _ := fmt.Sscanf(r.Note, "start %d", &k); n == 1 && k > 0 && p.Phases[k-1].Advance.D().Seconds() >= 390 {
				for c := range offline {
					revokeAll(c, model.Span{Inv: ends[k-1], Resp: r.Step})
					delete(offline, c)
				}
			}
		}
		if r.Kind == "api_ret" && r.Note == "api_unsuball" {
			o := h.Ops[r.Op]
			revokeAll(cidx[o.Op.Target], model.Span{Inv: o.Inv, Resp: o.Resp})
		}
	}
	// API subscriptions for a client id that had no session when a clean-start CONNECT arrived are not
	// removed by it (no session is terminated). Whether a session existed is knowable, but to stay on the
	// safe side such entries are judged "may": handled by giving the revoke an open end.
	key := func(c string, full string) string { return c + "|" + full }
	for _, o := range h.Ops {
		if o.Op.K != "api_custom" || o.Ret == nil {
			continue
		}
		d, ok := o.Ret.(*sim.APIResult).Val.(*c02Dump)
		if !ok {
			continue
		}
		q := model.Span{Inv: o.Inv, Resp: o.Resp}
		where := fmt.Sprintf("dump at step %d", o.Inv)
		must := map[string][]subVal{}
		may := map[string][]subVal{}
		for ci, id := range ids {
			for f, chs := range tl[ci] {
				st, vals := model.Holds(chs, q)
				var sv []subVal
				for _, v := range vals {
					sv = append(sv, v.(subVal))
				}
				switch st {
				case model.Must:
					must[key(id, f)] = sv
				case model.May:
					may[key(id, f)] = sv
				}
			}
		}
		full := func(e c02Entry) string {
			if e.Sub.Share != "" {
				return "$share/" + e.Sub.Share + "/" + e.Sub.Filter
			}
			return e.Sub.Filter
		}
		optsOK := func(e c02Entry, vals []subVal) bool {
			for _, v := range vals {
				if v.granted == e.Sub.QoS && v.sub.NoLocal == e.Sub.NoLocal && v.sub.RAP == e.Sub.RAP && v.sub.RH == e.Sub.RH && v.id == e.Sub.ID {
					return true
				}
			}
			return false
		}
		// check one result list against the expected set selected by pred
		check := func(what string, got []c02Entry, pred func(client, fullFilter string) bool) {
			seen := map[string]bool{}
			for _, e := range got {
				k := key(e.Client, full(e))
				if seen[k] {
					vs = append(vs, viol("C02", "lookup", "duplicate", "%s %s: subscription %s returned twice", where, what, k))
				}
				seen[k] = true
				if !pred(e.Client, full(e)) {
					vs = append(vs, viol("C02", "lookup", "not-selected", "%s %s: returned %s which the query does not select", where, what, k))
					continue
				}
				vals, isMust := must[k]
				if !isMust {
					var isMay bool
					vals, isMay = may[k]
					if !isMay {
						vs = append(vs, viol("C02", "lookup", "stale", "%s %s: returned %s which is not a stored subscription (never made, unsubscribed, or its session ended)", where, what, k))
						continue
					}
				}
				if !optsOK(e, vals) {
					vs = append(vs, viol("C02", "lookup", "options", "%s %s: %s returned with options %+v, stored (latest) %+v", where, what, k, e.Sub, vals))
				}
			}
			var ks []string
			for k := range must {
				ks = append(ks, k)
			}
			sort.Strings(ks)
			for _, k := range ks {
				var c, f string
				for i := 0; i < len(k); i++ {
					if k[i] == '|' {
						c, f = k[:i], k[i+1:]
						break
					}
				}
				if pred(c, f) && !seen[k] {
					vs = append(vs, viol("C02", "lookup", "missing", "%s %s: stored subscription %s is not returned (history of that subscription: %+v)", where, what, k, tl[cidx[c]][f]))
				}
			}
		}
		for _, t := range c02Topics {
			check("Iterate(MatchFilter,"+t+")", d.ByTopic[t], func(c, f string) bool {
				_, flt := model.SplitShare(f)
				return model.Match(flt, t)
			})
		}
		for _, flt := range c02Filters {
			check("Iterate(MatchName,"+flt+")", d.ByFilter[flt], func(c, f string) bool { return f == flt })
		}
		for _, id := range ids {
			check("Iterate(ClientID="+id+")", d.ByClient[id], func(c, f string) bool { return c == id })
		}
		check("Iterate(all)", d.All, func(c, f string) bool { return true })
		var cks []string
		for k := range d.Combos {
			cks = append(cks, k)
		}
		sort.Strings(cks)
		for _, k := range cks {
			parts := strings.SplitN(k, "|", 4)
			cid, tn, mt, name := parts[0], parts[1], parts[2], parts[3]
			check("Iterate(client="+cid+",type="+tn+",match="+mt+","+name+")", d.Combos[k], func(c, f string) bool {
				if cid != "" && c != cid {
					return false
				}
				sh, flt := model.SplitShare(f)
				class := "nonshared"
				if sh != "" {
					class = "shared"
				} else if strings.HasPrefix(flt, "$") {
					class = "sys"
				}
				if tn != "all" && tn != class {
					return false
				}
				switch mt {
				case "filter":
					return model.Match(flt, name)
				case "name":
					return f == name
				}
				return true
			})
		}
		// C02.stats
		lo, hi := uint64(len(must)), uint64(len(must)+len(may))
		if d.Current < lo || d.Current > hi {
			vs = append(vs, viol("C02", "stats", "global-current", "%s: SubscriptionsCurrent %d, live subscriptions %d..%d", where, d.Current, lo, hi))
		}
		for _, id := range ids {
			var l, hh uint64
			for k := range must {
				if len(k) > len(id) && k[:len(id)+1] == id+"|" {
					l++
				}
			}
			hh = l
			for k := range may {
				if len(k) > len(id) && k[:len(id)+1] == id+"|" {
					hh++
				}
			}
			if d.PerCliOK[id] && (d.PerCli[id] < l || d.PerCli[id] > hh) {
				vs = append(vs, viol("C02", "stats", "client-current", "%s: client %s SubscriptionsCurrent %d, live subscriptions %d..%d", where, id, d.PerCli[id], l, hh))
			}
			if !d.PerCliOK[id] && l > 0 {
				vs = append(vs, viol("C02", "stats", "client-missing", "%s: client %s has %d live subscriptions but GetClientStats reports no such client", where, id, l))
			}
		}
		// C02.topicmatch (pure helper, evaluated on the simulation's pairs)
		var ks []string
		for k := range d.TMatch {
			ks = append(ks, k)
		}
		sort.Strings(ks)
		for _, k := range ks {
			var t, f string
			for i := 0; i < len(k); i++ {
				if k[i] == '|' {
					t, f = k[:i], k[i+1:]
					break
				}
			}
			if w := model.Match(f, t); w != d.TMatch[k] {
				vs = append(vs, viol("C02", "topicmatch", fmt.Sprintf("topic=%s filter=%s", t, f), "packets.TopicMatch(%q, %q) = %v, MQTT 4.7 says %v", t, f, d.TMatch[k], w))
			}
		}
	}
	return vs
}
