package checks

import (
	"fmt"
	"math/rand/v2"
	"strings"

	"github.com/DrmagicE/gmqtt/server"

	"verifsim/mqttc"
	"verifsim/sim"
)

// C15: concurrent use is race-free, deadlock-free and Stop terminates cleanly.
// Controlled mode (this file): chaotic workload under the seeded scheduler, Stop at a random moment.
// Free mode with the race detector: c15_race (separate binary, see bin/check).

func init() {
	register(&Check{ID: "C15", Gen: genC15, Oracle: oracleC15,
		Setup: func(p *sim.Plan) *sim.Setup {
			run := &c14Run{decider: "", expose: map[string]bool{"pa/OnStop": true, "pa/OnClosed": true, "pa/OnConnected": true}, loads: map[string]int{}, unloads: map[string]int{}}
			c14mu.Lock()
			c14cur = run
			c14mu.Unlock()
			return &sim.Setup{Options: func(w *sim.World, n int) []server.Options {
				c14mu.Lock()
				run.w = w
				c14mu.Unlock()
				return nil
			}}
		},
		Nontrivial: func(p *sim.Plan, out *sim.Outcome) bool { return out.Switches > 20 }})
}

func genC15(rng *rand.Rand, tier string) *sim.Plan {
	p := NewPlan("C15", rng.Uint64(), rng)
	p.Sched.SwitchProb = pick(rng, []float64{0.3, 0.6, 0.6, 0.9})
	p.Broker.PluginOrder = []string{"pa"}
	p.Broker.MaxQueued = pick(rng, []int{3, 20, 1000})
	p.Broker.MaxInflight = pick(rng, []int{1, 3, 100})
	if p.Broker.MaxInflight > p.Broker.MaxQueued {
		p.Broker.MaxInflight = p.Broker.MaxQueued
	}
	p.Broker.SessionExpiryS = sim.Int(60)
	// short in-flight expiry: with a small queue, deliveries into a session that is being resumed find expired
	// in-flight entries to sacrifice (queue lock and packet-id limiter lock meet)
	p.Broker.InflightExpiryS = sim.Int(pick(rng, []int{1, 2, 30}))
	n := 3 + rng.IntN(5)
	if tier == "thorough" {
		n = 3 + rng.IntN(9)
	}
	idPool := []string{"a", "b", "c", "d", "dup", "dup", "e"}
	for i := 0; i < n; i++ {
		p.Clients = append(p.Clients, sim.ClientSpec{ID: pick(rng, idPool), Ver: pick(rng, []byte{4, 5, 5})})
	}
	filters := []string{"t/#", "t/a", "+/a", "#", "$share/g/t/#", "t/+"}
	topics := []string{"t/a", "t/b", "u/a", "t"}
	phases := 1 + rng.IntN(3)
	msg := 0
	stopPhase := rng.IntN(phases + 1) // == phases: stop only in the final sequence
	for ph := 0; ph < phases; ph++ {
		var P sim.Phase
		P.TimeoutS = 60
		for i := 0; i < n; i++ {
			v5 := p.Clients[i].Ver == 5
			kind := rng.IntN(12)
			switch {
			case kind == 0:
				// a connection that never sends CONNECT (5 s connect timeout)
				P.Ops = append(P.Ops, sim.Op{K: "connect", C: i, Clean: true, Ver: 4, StayOpen: true, ClientID: sim.Str("")})
				P.Ops[len(P.Ops)-1].K = "connect_silent"
				continue
			case kind == 1:
				// garbage instead of CONNECT
				P.Ops = append(P.Ops, sim.Op{K: "connect_raw", C: i, Raw: []byte{0x30, 0x03, 0x00, 0x01, 'x'}})
				continue
			}
			c := sim.Op{K: "connect", C: i, Clean: chance(rng, 0.5), Ack: pick(rng, []string{"", "", "never", "late"}), AckDelay: sim.Us(200)}
			if v5 && chance(rng, 0.5) {
				c.ExpiryS = sim.U32(30)
			}
			if chance(rng, 0.2) {
				c.KeepAlive = 2
			}
			if chance(rng, 0.3) {
				c.Will = &sim.Will{Topic: "t/will", Payload: fmt.Sprintf("w%d", i), QoS: 1}
				if v5 && chance(rng, 0.5) {
					c.Will.DelayS = sim.U32(uint32(1 + rng.IntN(3)))
				}
			}
			P.Ops = append(P.Ops, c)
			for k := 0; k < rng.IntN(8); k++ {
				switch x := rng.IntN(10); {
				case x < 3:
					P.Ops = append(P.Ops, sim.Op{K: "subscribe", C: i, Subs: []mqttc.Sub{{Filter: pick(rng, filters), QoS: byte(rng.IntN(3))}}, NoWait: chance(rng, 0.3)})
				case x < 7:
					msg++
					P.Ops = append(P.Ops, sim.Op{K: "publish", C: i, Topic: pick(rng, topics), QoS: byte(rng.IntN(3)), Retain: chance(rng, 0.2), Payload: fmt.Sprintf("c%d", msg), NoWait: chance(rng, 0.6)})
				case x < 8:
					P.Ops = append(P.Ops, sim.Op{K: "unsubscribe", C: i, Filters: []string{pick(rng, filters)}})
				case x < 9:
					P.Ops = append(P.Ops, sim.Op{K: pick(rng, []string{"cut", "disconnect"}), C: i, Mode: pick(rng, []string{"rst", "fin"})})
					P.Ops = append(P.Ops, sim.Op{K: "connect", C: i, Clean: chance(rng, 0.3), Delay: sim.Us(rng.IntN(300))})
				default:
					P.Ops = append(P.Ops, sim.Op{K: "ping", C: i})
				}
			}
		}
		// a slow consumer: a subscriber that stops reading while messages pile up for it, then dies
		if n >= 2 && chance(rng, 0.3) {
			sc, pc := rng.IntN(n), rng.IntN(n)
			if pc == sc {
				pc = (sc + 1) % n
			}
			P.Ops = append(P.Ops, sim.Op{K: "subscribe", C: sc, Subs: []mqttc.Sub{{Filter: "t/#", QoS: byte(rng.IntN(2))}}},
				sim.Op{K: "stall", C: sc, StallCap: pick(rng, []int{64, 512, 2048})})
			for k := 0; k < 12+rng.IntN(20); k++ {
				msg++
				P.Ops = append(P.Ops, sim.Op{K: "publish", C: pc, Topic: "t/a", QoS: byte(rng.IntN(2)), Payload: fmt.Sprintf("c%d", msg), PadTo: pick(rng, []int{0, 300, 1500}), NoWait: true})
			}
			P.Ops = append(P.Ops, sim.Op{K: "cut", C: sc, Mode: pick(rng, []string{"rst", "fin"}), Delay: sim.Us(500 + rng.IntN(3000))})
		}
		// API callers
		for a := 0; a < 1+rng.IntN(4); a++ {
			for k := 0; k < 1+rng.IntN(4); k++ {
				id := pick(rng, idPool)
				switch x := rng.IntN(9); {
				case x < 3:
					msg++
					P.Ops = append(P.Ops, sim.Op{K: "api_publish", C: -1 - a, Topic: pick(rng, topics), QoS: byte(rng.IntN(3)), Payload: fmt.Sprintf("c%d", msg)})
				case x < 4:
					P.Ops = append(P.Ops, sim.Op{K: "api_subscribe", C: -1 - a, Target: id, Subs: []mqttc.Sub{{Filter: pick(rng, filters), QoS: 1}}})
				case x < 5:
					P.Ops = append(P.Ops, sim.Op{K: "api_unsuball", C: -1 - a, Target: id})
				case x < 6:
					P.Ops = append(P.Ops, sim.Op{K: "api_terminate", C: -1 - a, Target: id})
				case x < 7:
					P.Ops = append(P.Ops, sim.Op{K: "api_stats", C: -1 - a})
				case x < 8:
					P.Ops = append(P.Ops, sim.Op{K: "api_iterate", C: -1 - a, Topic: pick(rng, topics)})
				default:
					P.Ops = append(P.Ops, sim.Op{K: "api_close", C: -1 - a, Target: id})
				}
			}
		}
		if ph == stopPhase {
			P.Ops = append(P.Ops, sim.Op{K: "api_stop", C: -50, Delay: sim.Us(rng.IntN(3000))})
		}
		if chance(rng, 0.3) {
			P.Advance = sim.Sec(pick(rng, []int{1, 4, 6, 25}))
		}
		p.Phases = append(p.Phases, P)
		if ph == stopPhase {
			break
		}
	}
	if chance(rng, 0.25) {
		// resume under pressure: a session whose small queue is full of in-flight entries that have outlived the
		// in-flight expiry is resumed while new messages are delivered into it (Add sacrifices the expired entries
		// and gives their packet ids back while the resuming connection replays the very same entries)
		p.Broker.MaxQueued = pick(rng, []int{2, 3, 5})
		if p.Broker.MaxInflight > p.Broker.MaxQueued {
			p.Broker.MaxInflight = p.Broker.MaxQueued
		}
		p.Broker.InflightExpiryS = sim.Int(1)
		rs, rp := len(p.Clients), len(p.Clients)+1
		p.Clients = append(p.Clients, sim.ClientSpec{ID: "rs", Ver: pick(rng, []byte{4, 5})}, sim.ClientSpec{ID: "rp", Ver: pick(rng, []byte{4, 5})})
		var A, B sim.Phase
		A.TimeoutS, B.TimeoutS = 60, 60
		var exp *uint32
		if p.Clients[rs].Ver == 5 {
			exp = sim.U32(60)
		}
		A.Ops = append(A.Ops, sim.Op{K: "connect", C: rs, Clean: false, Ack: "never", ExpiryS: exp},
			sim.Op{K: "subscribe", C: rs, Subs: []mqttc.Sub{{Filter: "t/#", QoS: 1}}},
			sim.Op{K: "connect", C: rp, Clean: true, Delay: sim.Us(5000)})
		for k := 0; k < p.Broker.MaxQueued+rng.IntN(4); k++ {
			msg++
			A.Ops = append(A.Ops, sim.Op{K: "publish", C: rp, Topic: "t/a", QoS: 1, Payload: fmt.Sprintf("c%d", msg)})
		}
		A.Ops = append(A.Ops, sim.Op{K: "cut", C: rs, Mode: pick(rng, []string{"rst", "fin"}), Delay: sim.Us(60000)})
		A.Advance = sim.Sec(pick(rng, []int{2, 3}))
		B.Ops = append(B.Ops, sim.Op{K: "connect", C: rs, Clean: false, Ack: pick(rng, []string{"", "never", "late"}), AckDelay: sim.Us(200), ExpiryS: exp, Delay: sim.Us(rng.IntN(1500))})
		for k := 0; k < 3+rng.IntN(6); k++ {
			msg++
			B.Ops = append(B.Ops, sim.Op{K: "publish", C: rp, Topic: "t/a", QoS: byte(1 + rng.IntN(2)), Payload: fmt.Sprintf("c%d", msg), NoWait: true, Delay: sim.Us(rng.IntN(400))})
		}
		p.Phases = append([]sim.Phase{A, B}, p.Phases...)
	}
	if maybeRedis(rng, p, 0.3) && chance(rng, 0.7) {
		// storage faults: a few of the broker's redis commands fail (error reply) or lose their connection; whatever
		// the broker makes of it, it must not dead-lock, panic, stop answering, or hang in Stop
		var errs, drops []string
		for k := 0; k < 1+rng.IntN(4); k++ {
			at := fmt.Sprint(3 + rng.IntN(40)*rng.IntN(12))
			if chance(rng, 0.6) {
				errs = append(errs, at)
			} else {
				drops = append(drops, at)
			}
		}
		p.Params["redis_err_at"], p.Params["redis_drop_at"] = strings.Join(errs, " "), strings.Join(drops, " ")
	}
	return p
}

func oracleC15(p *sim.Plan, out *sim.Outcome) []sim.Violation {
	vs := genericOracle(p, out)
	if out.Faults["redis.cmd_error"]+out.Faults["redis.conn_drop"] > 0 {
		// a panic in a run in which a storage command failed carries that in its signature (one such panic is a
		// recorded finding: the redis queue does not survive failed writes with its cursor intact)
		for i := range vs {
			if vs[i].Clause == "panic" {
				vs[i].Sig += "@storage-fault"
			}
		}
	}
	h := out.H
	w := out.W
	if out.LoopErr != nil {
		if strings.Contains(out.LoopErr.Error(), "Run returned before Stop") && p.Params["redis_err_at"]+p.Params["redis_drop_at"] != "" {
			// an injected storage fault hit the start-up sequence: refusing to start is a legitimate answer
			out.Probes["storage_fault_during_startup"]++
			return vs
		}
		vs = append(vs, viol("C15", "bounded_response", "no-progress", "the simulation did not come to an end: %v", out.LoopErr))
		return vs
	}
	nd := w.Nodes[0]
	stopStep := -1
	for _, r := range h.Recs {
		if r.Kind == "note" && r.Note == "stop issued" {
			stopStep = r.Step
		}
	}
	// C15.bounded_response: a request sent on a connection that stayed up is answered
	ends := connEnds(h)
	for _, o := range h.Ops {
		if o.Result != "timeout" || o.Op.C < 0 {
			continue
		}
		if o.Op.K == "await_close" {
			continue
		}
		if e, ok := ends[o.Conn]; ok && e >= 0 {
			continue // the connection went away: nothing owed
		}
		if stopStep >= 0 && o.Inv >= stopStep {
			continue
		}
		if o.Op.K == "publish" && o.Op.QoS == 0 {
			continue
		}
		vs = append(vs, viol("C15", "bounded_response", "unanswered-"+o.Op.K, "%s (op %d, client %d) sent at step %d on a connection that stayed open was not answered within 60 simulated seconds", o.Op.K, o.Idx, o.Op.C, o.Inv))
	}
	for _, o := range h.Ops {
		if o.Result == "timeout" && o.Op.C < 0 && o.Op.K != "api_stop" {
			vs = append(vs, viol("C15", "bounded_response", "api-blocked-"+o.Op.K, "API call %s did not return within 60 simulated seconds", o.Op.K))
		}
	}
	// C15.stop_returns
	if !nd.StopReturned || !nd.RunReturned {
		vs = append(vs, viol("C15", "stop_returns", "stop-hangs", "30 simulated seconds after Stop was called: Stop returned=%v, Run returned=%v; blocked tasks: %v", nd.StopReturned, nd.RunReturned, w.LeakedAfterStop))
		return vs
	}
	if nd.StopErr != nil {
		vs = append(vs, viol("C15", "stop_returns", "stop-error", "Stop returned %v", nd.StopErr))
	}
	// C15.stop_closes
	if !nd.Ln.IsClosed() {
		vs = append(vs, viol("C15", "stop_closes", "listener-open", "the TCP listener is still open after Stop returned"))
	}
	stopRet := -1
	for _, r := range h.Recs {
		if r.Kind == "note" && strings.HasPrefix(r.Note, "stop returned") {
			stopRet = r.Step
		}
	}
	bclosed := map[int]int{}
	for _, r := range h.Recs {
		if r.Kind == "bclose" {
			bclosed[r.Conn] = r.Step
		}
	}
	accepted := map[int]string{}
	for _, r := range h.Recs {
		if r.Kind == "open" {
			accepted[r.Conn] = r.Note
		}
	}
	for c := range accepted {
		if st, ok := bclosed[c]; !ok || st > stopRet {
			kind := "established"
			if cs := connState(h, c); cs != "" {
				kind = cs
			}
			vs = append(vs, viol("C15", "stop_closes", "conn-open-"+kind, "connection %d (%s) accepted by the broker was not closed by it when Stop returned", c, kind))
		}
	}
	// C15.goroutines
	if len(w.LeakedAfterStop) > 0 {
		var sites []string
		seen := map[string]bool{}
		for _, t := range w.LeakedAfterStop {
			s := t
			if i := strings.IndexByte(s, ':'); i >= 0 {
				s = s[i+1:]
			}
			if !seen[s] {
				seen[s] = true
				sites = append(sites, s)
			}
		}
		vs = append(vs, viol("C15", "goroutines", "leak", "%d broker goroutines are still alive after Stop and Run returned: %v", len(w.LeakedAfterStop), sites))
	}
	// C15.unload_onstop_once
	nStop, nUnload, nBase := 0, 0, 0
	for _, r := range h.Recs {
		if r.Kind == "hook" && r.Note == "plg" {
			l := r.Val.(c14Log)
			if l.Hook == "OnStop" && l.Phase == "enter" {
				nStop++
			}
			if l.Hook == "Unload" {
				nUnload++
			}
		}
		if r.Kind == "hook" && r.Note == "onstop" {
			nBase++
		}
	}
	if nStop != 1 || nUnload != 1 || nBase != 1 {
		vs = append(vs, viol("C15", "unload_onstop_once", "count", "after Stop: plugin OnStop wrapper ran %d times, Unload %d times, the OnStop hook %d times (each must be 1)", nStop, nUnload, nBase))
	}
	return vs
}

// connState classifies a connection by how far its handshake got.
func connState(h *sim.History, conn int) string {
	sawConnect, sawConnack := false, false
	for _, r := range h.Recs {
		if r.Conn != conn || r.Pkt == nil {
			continue
		}
		if r.Kind == "tx" && r.Pkt.Type == mqttc.CONNECT {
			sawConnect = true
		}
		if r.Kind == "rx" && r.Pkt.Type == mqttc.CONNACK {
			sawConnack = true
			if r.Pkt.Code != 0 {
				return "refused"
			}
		}
	}
	switch {
	case sawConnack:
		return "established"
	case sawConnect:
		return "connecting"
	}
	return "no-connect"
}
