package checks

import (
	"context"
	"fmt"
	"math/rand/v2"
	"os"
	"path/filepath"
	"sort"
	"strings"
	"sync/atomic"

	"github.com/DrmagicE/gmqtt"
	"github.com/DrmagicE/gmqtt/config"
	"github.com/DrmagicE/gmqtt/persistence/subscription"
	"github.com/DrmagicE/gmqtt/plugin/auth"
	"github.com/DrmagicE/gmqtt/server"

	"verifsim/mqttc"
	"verifsim/sim"
	"verifsim/simfs"
)

// C19: no broker state is reachable without passing authentication (real auth plugin, real password
// file code on a sandboxed file system with injected faults).

var c19seq atomic.Int64

type c19Dump struct {
	Sessions []string
	Subs     []string
	Retained map[string]string
}

func init() {
	register(&Check{ID: "C19", Gen: genC19, Oracle: oracleC19,
		Setup: func(p *sim.Plan) *sim.Setup {
			root := filepath.Join(os.TempDir(), fmt.Sprintf("verif-c19-%d-%d", os.Getpid(), c19seq.Add(1)))
			os.MkdirAll(root, 0o755)
			fs := &simfs.FS{Root: root, Cwd: "/cwd", FailAt: map[int]bool{}}
			for _, d := range []string{"cwd/sub", "cfg/sub", "abs"} {
				os.MkdirAll(filepath.Join(root, d), 0o755)
			}
			for _, x := range strings.Split(p.Params["failat"], ",") {
				var n int
				if _, err := fmt.Sscan(x, &n); err == nil && n > 0 {
					fs.FailAt[n] = true
				}
			}
			simfs.Install(fs)
			return &sim.Setup{
				Cleanup: func() {
					simfs.Install(nil)
					os.RemoveAll(root)
				},
				Config: func(w *sim.World, n int, cfg *config.Config) {
					cfg.ConfigDir = p.Params["cfgdir"]
					hash := p.Params["hash"]
					if w.Nodes[n].Gen > 1 && p.Params["hash2"] != "" {
						hash = p.Params["hash2"] // the operator changed the algorithm before the restart
					}
					cfg.Plugins = map[string]config.Configuration{"auth": &auth.Config{PasswordFile: p.Params["pwfile"], Hash: hash}}
					cfg.PluginOrder = []string{"auth"}
				},
				Custom: map[string]func(w *sim.World, op *sim.Op) any{
					"acct": func(w *sim.World, op *sim.Op) any {
						for _, pl := range w.Nodes[0].Srv.Plugins() {
							a, ok := pl.(*auth.Auth)
							if !ok {
								continue
							}
							before := fs.Failures
							var err error
							if op.Mode == "delete" {
								_, err = a.Delete(context.Background(), &auth.DeleteAccountRequest{Username: op.Target})
							} else {
								_, err = a.Update(context.Background(), &auth.UpdateAccountRequest{Username: op.Target, Password: op.Payload})
							}
							if fs.Failures > before {
								w.Fault("fs.op_error")
							}
							if err != nil {
								return "error: " + err.Error()
							}
							return "ok"
						}
						return "error: auth plugin not loaded"
					},
					"c19_dump": func(w *sim.World, op *sim.Op) any {
						srv := w.Nodes[0].Srv
						d := &c19Dump{Retained: map[string]string{}}
						srv.ClientService().IterateSession(func(s *gmqtt.Session) bool { d.Sessions = append(d.Sessions, s.ClientID); return true })
						srv.SubscriptionService().Iterate(func(cid string, s *gmqtt.Subscription) bool {
							d.Subs = append(d.Subs, cid+"|"+s.GetFullTopicName())
							return true
						}, subscription.IterationOptions{Type: subscription.TypeAll})
						srv.RetainedService().Iterate(func(m *gmqtt.Message) bool { d.Retained[m.Topic] = string(m.Payload); return true })
						sort.Strings(d.Sessions)
						sort.Strings(d.Subs)
						return d
					},
				},
			}
		},
		Nontrivial: func(p *sim.Plan, out *sim.Outcome) bool {
			n := 0
			for _, r := range out.H.Recs {
				if r.Kind == "rx" && r.Pkt.Type == mqttc.CONNACK {
					n++
				}
			}
			return n >= 3
		}})
	_ = server.Connected
}

func genC19(rng *rand.Rand, tier string) *sim.Plan {
	p := NewPlan("C19", rng.Uint64(), rng)
	p.Params = map[string]string{
		"hash":   pick(rng, []string{"plain", "md5", "sha256", "bcrypt"}),
		"hash2":  pick(rng, []string{"", "", "plain", "md5", "sha256", "bcrypt", "bcrypt"}),
		"cfgdir": pick(rng, []string{"/cwd", "/cwd", "/cfg"}),
		"pwfile": pick(rng, []string{"pw.yml", "./pw.yml", "/abs/pw.yml", "sub/pw.yml"}),
	}
	if chance(rng, 0.3) {
		p.Params["failat"] = fmt.Sprint(2 + rng.IntN(12))
	}
	users := []string{"alice", "bob", "al", "alice2", ""}
	passes := []string{"secret", "Secret", "secre", "secret ", "", "p" + strings.Repeat("x", 40), strings.Repeat("L", 65535)}
	// 0 watcher (a valid account is created for it first), 1..3 subjects
	p.Clients = []sim.ClientSpec{{ID: "watch", Ver: 4}, {ID: "s1", Ver: pick(rng, []byte{3, 4, 5})}, {ID: "s2", Ver: pick(rng, []byte{4, 5})}, {ID: "intruder", Ver: pick(rng, []byte{4, 5})}}
	acct := func(mode, u, pw string) sim.Op {
		return sim.Op{K: "api_custom", C: -1, Custom: "acct", Mode: mode, Target: u, Payload: pw}
	}
	dump := sim.Op{K: "api_custom", C: -2, Custom: "c19_dump"}
	p.Phases = append(p.Phases, sim.Phase{Ops: []sim.Op{acct("update", "watcher", "wpw")}})
	p.Phases = append(p.Phases, sim.Phase{Ops: []sim.Op{
		{K: "connect", C: 0, Clean: true, User: sim.Str("watcher"), Pass: sim.Str("wpw")},
		{K: "subscribe", C: 0, Subs: []mqttc.Sub{{Filter: "#", QoS: 1}}},
	}})
	rounds := 2 + rng.IntN(4)
	for r := 0; r < rounds; r++ {
		// account changes (sequential in their own phase, sometimes concurrent with connects)
		var ap sim.Phase
		for k := 0; k < 1+rng.IntN(3); k++ {
			u := pick(rng, users[:4])
			if chance(rng, 0.25) {
				ap.Ops = append(ap.Ops, acct("delete", u, ""))
			} else {
				ap.Ops = append(ap.Ops, acct("update", u, pick(rng, passes[:6])))
			}
		}
		concurrent := chance(rng, 0.25)
		var cp sim.Phase
		for _, c := range []int{1, 2} {
			op := sim.Op{K: "connect", C: c, Clean: true}
			switch rng.IntN(6) {
			case 0: // no user name flag
			case 1: // user name only
				op.User = sim.Str(pick(rng, users))
			default:
				op.User = sim.Str(pick(rng, users))
				op.Pass = sim.Str(pick(rng, passes))
			}
			if p.Clients[c].Ver == 5 && chance(rng, 0.2) {
				// an authentication method the broker has no handler for — also the zero-length one
				op.AuthMethod = sim.Str(pick(rng, []string{"SCRAM", "SCRAM", "", "x"}))
				if *op.AuthMethod != "" && chance(rng, 0.7) {
					op.AuthData = []byte("x")
				}
			}
			cp.Ops = append(cp.Ops, op)
			// whatever the outcome, try to leave a trace
			cp.Ops = append(cp.Ops,
				sim.Op{K: "subscribe", C: c, Subs: []mqttc.Sub{{Filter: fmt.Sprintf("priv/%d/%d", c, r), QoS: 1}}},
				sim.Op{K: "publish", C: c, Topic: fmt.Sprintf("leak/%d/%d", c, r), QoS: 1, Retain: true, Payload: fmt.Sprintf("leak-%d-%d", c, r)},
				sim.Op{K: "disconnect", C: c})
		}
		// the intruder never authenticates: packets before / instead of / after a failed CONNECT
		ip := sim.Phase{TimeoutS: 30}
		switch rng.IntN(3) {
		case 0:
			ip.Ops = append(ip.Ops, sim.Op{K: "connect_raw", C: 3, Raw: mqttc.Encode(&mqttc.Packet{Type: mqttc.PUBLISH, Topic: fmt.Sprintf("leak/i/%d", r), QoS: 0, Retain: true, Payload: []byte(fmt.Sprintf("leak-i-%d", r))}, 4)})
			ip.Ops = append(ip.Ops, sim.Op{K: "raw", C: 3, Raw: mqttc.Encode(&mqttc.Packet{Type: mqttc.SUBSCRIBE, PID: 1, Subs: []mqttc.Sub{{Filter: "#", QoS: 0}}}, 4)})
		default:
			ip.Ops = append(ip.Ops, sim.Op{K: "connect", C: 3, Clean: true, User: sim.Str("nobody"), Pass: sim.Str("x"), StayOpen: true})
			ip.Ops = append(ip.Ops,
				sim.Op{K: "subscribe", C: 3, PreConnect: true, NoWait: true, Subs: []mqttc.Sub{{Filter: "#", QoS: 1}}},
				sim.Op{K: "publish", C: 3, PreConnect: true, NoWait: true, Topic: fmt.Sprintf("leak/i/%d", r), QoS: 1, Retain: true, Payload: fmt.Sprintf("leak-i-%d", r)})
		}
		ip.Ops = append(ip.Ops, sim.Op{K: "sleep", C: 3, D: sim.Ms(20)}, sim.Op{K: "cut", C: 3})
		if concurrent {
			cp.Ops = append(cp.Ops, ap.Ops...)
			p.Phases = append(p.Phases, cp, ip)
		} else {
			p.Phases = append(p.Phases, ap, cp, ip)
		}
		p.Phases = append(p.Phases, sim.Phase{Ops: []sim.Op{dump}})
		if chance(rng, 0.35) {
			// broker restart on the same sandbox
			p.Phases = append(p.Phases, sim.Phase{Ops: []sim.Op{{K: "api_stop", C: -3}}}, sim.Phase{Ops: []sim.Op{{K: "api_start", C: -3}}},
				sim.Phase{Ops: []sim.Op{{K: "connect", C: 0, Clean: true, User: sim.Str("watcher"), Pass: sim.Str("wpw")}, {K: "subscribe", C: 0, Subs: []mqttc.Sub{{Filter: "#", QoS: 1}}}}})
		}
	}
	return p
}

func oracleC19(p *sim.Plan, out *sim.Outcome) []sim.Violation {
	vs := genericOracle(p, out)
	h := out.H
	if out.LoopErr != nil {
		if strings.Contains(out.LoopErr.Error(), "injected I/O error") {
			return vs // the injected file error hit the start-up read: refusing to start is legitimate
		}
		vs = append(vs, viol("C19", "restart", "broker-failed", "the broker did not (re)start or run to the end: %v", out.LoopErr))
		return vs
	}
	// account model with must / may: acknowledged changes in order; a failed change leaves the previous state
	type change struct {
		inv, resp int
		user      string
		pass      *string // nil = delete
		ok        bool
		failed    bool
	}
	var chs []change
	for _, o := range h.Ops {
		if o.Op.K == "api_custom" && o.Op.Custom == "acct" && o.Ret != nil {
			res, _ := o.Ret.(*sim.APIResult).Val.(string)
			c := change{inv: o.Inv, resp: o.Resp, user: o.Op.Target, ok: res == "ok", failed: res != "ok"}
			if o.Op.Mode != "delete" {
				pw := o.Op.Payload
				c.pass = &pw
			}
			chs = append(chs, c)
		}
	}
	// restart points: after a restart only what is on disk counts; with the sandbox that is what the model
	// says for acknowledged changes (a failed save must have left the file unchanged)
	// a restart under another hash algorithm: what was stored before it is a hash the configured algorithm cannot
	// match (the account exists, no password fits) until the account is changed again
	algoSwitch := -1
	if h2 := p.Params["hash2"]; h2 != "" && h2 != p.Params["hash"] {
		for _, o := range h.Ops {
			if o.Op.K == "api_start" && o.Inv >= 0 && algoSwitch < 0 {
				algoSwitch = o.Inv
			}
		}
	}
	validAt := func(user, pass string, q [2]int) (must, may bool) {
		// possible states of the account during window q
		var definite *change
		var maybe []change
		for i := range chs {
			c := chs[i]
			if c.user != user || c.failed {
				continue
			}
			if algoSwitch >= 0 && q[0] > algoSwitch && c.inv < algoSwitch && c.pass != nil {
				unusable := "\x00stored under the previous algorithm"
				c.pass = &unusable
				chs2 := c
				if c.resp >= 0 && c.resp < q[0] {
					definite = &chs2
					maybe = nil
				}
				continue
			}
			if c.resp >= 0 && c.resp < q[0] {
				definite = &chs[i]
				maybe = nil
			} else if c.inv <= q[1] {
				maybe = append(maybe, c)
			}
		}
		ok := func(c *change) bool { return c != nil && c.pass != nil && *c.pass == pass }
		states := []bool{ok(definite)}
		for i := range maybe {
			states = append(states, ok(&maybe[i]))
		}
		must, may = true, false
		for _, s := range states {
			if !s {
				must = false
			} else {
				may = true
			}
		}
		return
	}
	authed := map[int]bool{} // connections that passed authentication
	for _, o := range h.Ops {
		if o.Op.K != "connect" || o.Inv < 0 || o.Op.C == 0 {
			continue
		}
		user, pass := "", ""
		if o.Op.User != nil {
			user = *o.Op.User
		}
		if o.Op.Pass != nil {
			pass = *o.Op.Pass
		}
		resp := o.Resp
		if resp < 0 {
			resp = 1 << 60
		}
		must, may := validAt(user, pass, [2]int{o.Inv, resp})
		if o.Op.User == nil {
			must, may = false, false
		}
		accepted := o.Ack != nil && o.Ack.Code == 0
		if accepted {
			authed[o.Conn] = true
		}
		desc := fmt.Sprintf("CONNECT client %q (v%d) user=%q password=%q authmethod=%v hash=%s", p.Clients[o.Op.C].ID, p.Clients[o.Op.C].Ver, trunc(user), trunc(pass), o.Op.AuthMethod != nil, p.Params["hash"])
		switch {
		case accepted && !may:
			vs = append(vs, viol("C19", "iff", "accepted-invalid", "%s was ACCEPTED although no stored account matches", desc))
		case !accepted && must && o.Op.AuthMethod == nil:
			sig := "rejected-valid"
			if restartedBefore(h, o.Inv) {
				sig = "rejected-valid-after-restart"
			}
			vs = append(vs, viol("C19", "iff", sig, "%s was REJECTED (%v) although the account exists with that password", desc, o.Ack))
		}
	}
	// C19.no_effect: nothing from unauthenticated connections
	leakOK := map[string]bool{}
	for _, o := range h.Ops {
		if o.Op.K == "publish" && authed[o.Conn] {
			leakOK[o.Op.Payload] = true
		}
	}
	for _, r := range h.Recs {
		if r.Kind == "rx" && r.C == 0 && r.Pkt.Type == mqttc.PUBLISH {
			pl := string(r.Pkt.Payload)
			if strings.HasPrefix(pl, "leak-") && !leakOK[pl] {
				vs = append(vs, viol("C19", "no_effect", "publish-forwarded", "a PUBLISH (%q) sent on a connection that never authenticated was forwarded to a subscriber", pl))
			}
		}
	}
	for _, o := range h.Ops {
		if o.Op.K != "api_custom" || o.Ret == nil {
			continue
		}
		d, ok := o.Ret.(*sim.APIResult).Val.(*c19Dump)
		if !ok {
			continue
		}
		for t, pl := range d.Retained {
			if strings.HasPrefix(pl, "leak-") && !leakOK[pl] {
				vs = append(vs, viol("C19", "no_effect", "retained-stored", "retained store holds %q under %q, published on a connection that never authenticated", pl, t))
			}
		}
		for _, s := range d.Subs {
			if strings.HasPrefix(s, "intruder|") || strings.HasPrefix(s, "|") {
				vs = append(vs, viol("C19", "no_effect", "subscription-made", "subscription %q exists although that client never authenticated", s))
			}
		}
		for _, s := range d.Sessions {
			if s == "intruder" || s == "" {
				vs = append(vs, viol("C19", "no_effect", "session-made", "a session %q exists although that client never authenticated", s))
			}
		}
	}
	// a subject's subscriptions exist only if made on an authenticated connection
	for _, o := range h.Ops {
		if o.Op.K == "subscribe" && o.Op.C != 0 && o.Ack != nil && !authed[o.Conn] {
			vs = append(vs, viol("C19", "no_effect", "suback-unauthenticated", "SUBSCRIBE on a connection that never authenticated was acknowledged"))
		}
	}
	return vs
}

func restartedBefore(h *sim.History, step int) bool {
	for _, o := range h.Ops {
		if o.Op.K == "api_start" && o.Inv >= 0 && o.Inv < step {
			return true
		}
	}
	return false
}
