package checks

import (
	"fmt"
	"math/rand/v2"
	"time"

	"verifsim/mqttc"
	"verifsim/sim"
)

// C12: message expiry is honoured and the remaining lifetime is forwarded.

func init() {
	register(&Check{ID: "C12", Gen: genC12, Oracle: oracleC12,
		Nontrivial: func(p *sim.Plan, out *sim.Outcome) bool {
			return out.Faults["clock.jump"] > 0
		}})
}

func genC12(rng *rand.Rand, tier string) *sim.Plan {
	p := NewPlan("C12", rng.Uint64(), rng)
	M := pick(rng, []int{0, 1, 10, 7200})
	p.Broker.MessageExpiryS = sim.Int(M)
	p.Broker.SessionExpiryS = sim.Int(1000000)
	p.Broker.MaxQueued = pick(rng, []int{1000, 1000, 3, 6})
	if p.Broker.MaxQueued < 100 {
		p.Broker.MaxInflight = 2
		p.Broker.InflightExpiryS = sim.Int(pick(rng, []int{0, 5, 30}))
	}
	// 0 publisher, 1 online subscriber, 2 offline subscriber, 3 slow subscriber
	p.Clients = []sim.ClientSpec{{ID: "pub", Ver: pick(rng, []byte{5, 5, 4})}, {ID: "on", Ver: 5}, {ID: "off", Ver: pick(rng, []byte{5, 5, 4})}, {ID: "slow", Ver: 5}}
	sub := func(c int) sim.Op {
		return sim.Op{K: "subscribe", C: c, Subs: []mqttc.Sub{{Filter: "e/#", QoS: 1}}}
	}
	p.Phases = append(p.Phases, sim.Phase{Ops: []sim.Op{
		{K: "connect", C: 0, Clean: true},
		{K: "connect", C: 1, Clean: true}, sub(1),
		{K: "connect", C: 2, Clean: true, ExpiryS: sim.U32(900000)}, sub(2),
		{K: "connect", C: 3, Clean: true, RecvMax: sim.U16(1), Ack: "hold"}, sub(3),
	}})
	// the offline subscriber: v3 needs clean=false for a persistent session
	if p.Clients[2].Ver == 4 {
		p.Phases[0].Ops[3].Clean = false
	}
	msg := 0
	if chance(rng, 0.5) {
		// the subscriber that goes offline leaves messages it was sent, but never acknowledged, behind (in-flight entries
		// of its queue): with a small queue they are what a full queue sacrifices first once they have expired
		p.Phases[0].Ops[3].Ack = "never"
		var pre sim.Phase
		for k := 0; k < 1+rng.IntN(3); k++ {
			msg++
			pre.Ops = append(pre.Ops, sim.Op{K: "publish", C: 0, Topic: "e/t", QoS: 1, Payload: fmt.Sprintf("x%d", msg)})
		}
		p.Phases = append(p.Phases, pre)
	}
	p.Phases = append(p.Phases, sim.Phase{Ops: []sim.Op{{K: "cut", C: 2}}})
	Es := []uint32{1, 2, 5, 30, 3600, 0xFFFFFFFF}
	rounds := 1 + rng.IntN(3)
	var maxL int
	for r := 0; r < rounds; r++ {
		var ph sim.Phase
		for k := 0; k < 1+rng.IntN(5); k++ {
			msg++
			op := sim.Op{K: "publish", C: 0, Topic: "e/t", QoS: byte(rng.IntN(3)), Payload: fmt.Sprintf("x%d", msg)}
			if p.Clients[0].Ver == 5 && chance(rng, 0.8) {
				e := pick(rng, Es)
				op.MsgExpiry = &e
				L := int64(e)
				if M != 0 && int64(M) < L {
					L = int64(M)
				}
				if L < 100000 && int(L) > maxL {
					maxL = int(L)
				}
			} else if M != 0 && M < 100000 && M > maxL {
				maxL = M
			}
			ph.Ops = append(ph.Ops, op)
		}
		if chance(rng, 0.5) {
			ph.Ops = append(ph.Ops, sim.Op{K: "release_acks", C: 3, Ack: "hold", Delay: sim.Ms(1)})
		}
		switch k := rng.IntN(6); {
		case k < 3 && maxL > 0:
			d := maxL + pick(rng, []int{-3, -2, 2, 3, 20})
			if d > 0 {
				ph.Advance = sim.Sec(d)
			}
		case k < 5:
			ph.Advance = sim.Sec(pick(rng, []int{1, 3, 7, 40, 4000}))
		}
		p.Phases = append(p.Phases, ph)
	}
	// the offline subscriber comes back, the slow one acknowledges
	p.Phases = append(p.Phases, sim.Phase{Ops: []sim.Op{
		{K: "connect", C: 2, Clean: false, ExpiryS: sim.U32(900000)},
		{K: "release_acks", C: 3, Ack: "prompt"},
	}})
	maybeRedis(rng, p, 0.2)
	return p
}

func oracleC12(p *sim.Plan, out *sim.Outcome) []sim.Violation {
	vs := genericOracle(p, out)
	h := out.H
	M := 7200
	if p.Broker.MessageExpiryS != nil {
		M = *p.Broker.MessageExpiryS
	}
	const slack = 1100 * time.Millisecond
	type pub struct {
		op     *sim.OpRec
		t0, t1 time.Duration // enqueued between invoke and response
		E      *uint32
		life   time.Duration // 0 = unlimited
	}
	pubs := map[string]*pub{}
	for _, o := range h.Ops {
		if o.Op.K != "publish" || o.Inv < 0 {
			continue
		}
		pb := &pub{op: o, t0: o.InvT, t1: o.RespT, E: nil}
		if o.Resp < 0 || o.Op.QoS == 0 {
			pb.t1 = o.InvT + 10*time.Millisecond
		}
		if p.Clients[0].Ver == 5 {
			pb.E = o.Op.MsgExpiry
		}
		if pb.E != nil {
			pb.life = time.Duration(*pb.E) * time.Second
		}
		if M != 0 && (pb.life == 0 || time.Duration(M)*time.Second < pb.life) {
			pb.life = time.Duration(M) * time.Second
		}
		pubs[o.Op.Payload] = pb
	}
	dropped := map[string]map[string]bool{} // client id -> payload
	for _, r := range h.Recs {
		if r.Kind == "hook" && r.Note == "dropped" {
			di, ok := r.Val.(sim.DropInfo)
			if !ok {
				continue
			}
			cid, pl := di.Client, di.Payload
			out.Probes["dropped: "+di.Err]++
			if cid == "off" {
				out.Probes["dropped for the offline subscriber: "+di.Err]++
			}
			if dropped[cid] == nil {
				dropped[cid] = map[string]bool{}
			}
			dropped[cid][pl] = true
		}
	}
	for si := 1; si <= 3; si++ {
		id := p.Clients[si].ID
		v5 := p.Clients[si].Ver == 5
		first := map[string]*sim.Rec{}
		for _, r := range h.Recs {
			if r.Kind == "rx" && r.C == si && r.Pkt.Type == mqttc.PUBLISH {
				pl := string(r.Pkt.Payload)
				if first[pl] == nil {
					first[pl] = r
				}
			}
		}
		for pl, r := range first {
			pb := pubs[pl]
			if pb == nil {
				continue
			}
			waitedLo := r.T - pb.t1
			waitedHi := r.T - pb.t0
			if waitedLo < 0 {
				waitedLo = 0
			}
			if pb.life > 0 && !r.Pkt.Dup && waitedLo > pb.life+slack {
				sig := "late"
				if pb.E != nil && M != 0 && time.Duration(M)*time.Second < time.Duration(*pb.E)*time.Second {
					sig = "late-cap-ignored"
				}
				vs = append(vs, viol("C12", "never_late", sig, "subscriber %s received %q for the first time %v after it was published; lifetime = min(message expiry %v, configured %ds) = %v", id, pl, waitedLo, fmtE(pb.E), M, pb.life))
			}
			if v5 && pb.E != nil && !r.Pkt.Dup {
				E := int64(*pb.E)
				if r.Pkt.Props == nil || r.Pkt.Props.MessageExpiry == nil {
					vs = append(vs, viol("C12", "remaining", "absent", "v5 subscriber %s received %q (published with message expiry %d, waited about %v) without a message expiry interval", id, pl, E, waitedHi.Round(time.Millisecond)))
					continue
				}
				got := int64(*r.Pkt.Props.MessageExpiry)
				lo := E - int64(waitedHi/time.Second) - 1
				hi := E - int64(waitedLo/time.Second)
				if lo < 1 {
					lo = 1
				}
				if hi < 1 {
					hi = 1 // delivered in the last instant of its lifetime: the interval cannot be 0 ("never absent")
				}
				if got > E {
					vs = append(vs, viol("C12", "remaining", "more-than-original", "subscriber %s: %q forwarded with message expiry %d > original %d", id, pl, got, E))
				} else if got < lo || got > hi {
					sig := "wrong-value"
					if got == int64(waitedLo/time.Second) || got == int64(waitedHi/time.Second) {
						sig = "elapsed-instead-of-remaining"
					}
					vs = append(vs, viol("C12", "remaining", sig, "subscriber %s: %q published with message expiry %d waited %v..%v; forwarded interval %d, expected %d..%d", id, pl, E, waitedLo.Round(time.Millisecond), waitedHi.Round(time.Millisecond), got, lo, hi))
				}
			}
		}
		// C12.reported: expired while waiting and then skipped => OnMsgDropped
		// judged for the offline subscriber: it resumed in the last phase; whatever was published for it
		// and did not arrive must have been reported, if its lifetime had certainly elapsed by then.
		if si == 2 {
			var resumeT time.Duration = -1
			for _, r := range h.Recs {
				if r.Kind == "rx" && r.C == si && r.Pkt.Type == mqttc.CONNACK && r.Pkt.SessionPresent {
					resumeT = r.T
				}
			}
			if resumeT < 0 {
				continue
			}
			// messages the subscriber was sent before it went away and never acknowledged (in-flight entries of its
			// queue): after the resume each is retransmitted, or was reported dropped (expired in-flight entry
			// sacrificed by a full queue, expired message) — it does not just vanish either
			if p.Phases[0].Ops[3].Ack == "never" {
				seenBefore, seenAfter := map[string]bool{}, map[string]bool{}
				for _, r := range h.Recs {
					if r.Kind == "rx" && r.C == si && r.Pkt.Type == mqttc.PUBLISH && r.Pkt.QoS > 0 {
						if r.T < resumeT {
							seenBefore[string(r.Pkt.Payload)] = true
						} else {
							seenAfter[string(r.Pkt.Payload)] = true
						}
					}
				}
				for pl := range seenBefore {
					if !seenAfter[pl] && !dropped[id][pl] {
						vs = append(vs, viol("C12", "reported", "silently-gone-inflight", "message %q was sent to subscriber %s and never acknowledged; after the subscriber resumed its session it was neither retransmitted nor had it been reported through OnMsgDropped (max_queued_messages %d)", pl, id, p.Broker.MaxQueued))
					}
				}
			}
			subResp := -1
			for _, o := range h.Ops {
				if o.Op.K == "subscribe" && o.Op.C == si && o.Ack != nil && subResp < 0 {
					subResp = o.Resp
				}
			}
			for pl, pb := range pubs {
				if first[pl] != nil {
					continue
				}
				if pb.life != 0 && resumeT > pb.t1+pb.life+slack && !dropped[id][pl] {
					vs = append(vs, viol("C12", "reported", "unreported", "message %q (lifetime %v) expired while subscriber %s was offline and was neither delivered nor reported through OnMsgDropped", pl, pb.life, id))
					continue
				}
				// whatever the reason (expired, queue full, expired in-flight entry sacrificed): a QoS>0 message accepted for
				// the session and never delivered is reported, it does not just vanish. The run ends quiescent, with the
				// subscriber back and acknowledging.
				if pb.op.Op.QoS > 0 && pb.op.Ack != nil && subResp >= 0 && pb.op.Inv > subResp && !dropped[id][pl] {
					vs = append(vs, viol("C12", "reported", "silently-gone", "QoS %d message %q, accepted while subscriber %s held its subscription, was neither delivered to it (before or after it came back) nor reported through OnMsgDropped (max_queued_messages %d)", pb.op.Op.QoS, pl, id, p.Broker.MaxQueued))
				}
			}
		}
	}
	return vs
}

func fmtE(e *uint32) string {
	if e == nil {
		return "none"
	}
	return fmt.Sprintf("%ds", *e)
}
