package checks

import (
	"fmt"
	"math/rand/v2"
	"reflect"
	"sort"

	"github.com/DrmagicE/gmqtt"
	"github.com/DrmagicE/gmqtt/server"

	"verifsim/mqttc"
	"verifsim/sim"
)

// C20: statistics are conserved — counters equal what actually happened.

type c20Dump struct {
	Global   server.GlobalStats
	Clients  map[string]server.ClientStats
	Exists   map[string]bool
	QueueLen map[string]int // client id -> elements actually in its (memory) queue, -1 unknown
	Sessions int            // sessions in the session store
	Online   int            // entries of the online client list
}

func init() {
	register(&Check{ID: "C20", Gen: genC20, Oracle: oracleC20,
		Setup: func(p *sim.Plan) *sim.Setup {
			return &sim.Setup{Custom: map[string]func(w *sim.World, op *sim.Op) any{
				"stats_dump": func(w *sim.World, op *sim.Op) any {
					srv := w.Nodes[0].Srv
					d := &c20Dump{Global: srv.StatsManager().GetGlobalStats(), Clients: map[string]server.ClientStats{}, Exists: map[string]bool{}, QueueLen: map[string]int{}}
					for _, c := range w.Plan.Clients {
						cs, ok := srv.StatsManager().GetClientStats(c.ID)
						d.Clients[c.ID] = cs
						d.Exists[c.ID] = ok
						d.QueueLen[c.ID] = -1
						if q, ok := server.VerifQueue(srv, c.ID).(interface{ VerifLen() (int, int) }); ok {
							d.QueueLen[c.ID], _ = q.VerifLen()
						}
					}
					srv.ClientService().IterateSession(func(s *gmqtt.Session) bool { d.Sessions++; return true })
					srv.ClientService().IterateClient(func(c server.Client) bool { d.Online++; return true })
					return d
				},
			}}
		},
		Nontrivial: func(p *sim.Plan, out *sim.Outcome) bool {
			n := 0
			for _, r := range out.H.Recs {
				if r.Kind == "hook" && r.Note == "dropped" {
					n++
				}
			}
			return n > 0 || out.Faults["net.cut"] > 0
		}})
}

func genC20(rng *rand.Rand, tier string) *sim.Plan {
	p := NewPlan("C20", rng.Uint64(), rng)
	mq := pick(rng, []int{3, 5, 8, 1000})
	p.Broker.MaxQueued = mq
	p.Broker.MaxInflight = pick(rng, []int{1, 2, 3})
	if chance(rng, 0.3) {
		p.Broker.MessageExpiryS = sim.Int(5)
	}
	p.Broker.SessionExpiryS = sim.Int(100)
	if chance(rng, 0.2) {
		p.Broker.NoQueueQos0 = true
	}
	ns, np := 1+rng.IntN(3), 1+rng.IntN(2)
	for i := 0; i < ns; i++ {
		p.Clients = append(p.Clients, sim.ClientSpec{ID: fmt.Sprintf("s%d", i), Ver: pick(rng, []byte{4, 5, 5})})
	}
	for i := 0; i < np; i++ {
		p.Clients = append(p.Clients, sim.ClientSpec{ID: fmt.Sprintf("p%d", i), Ver: pick(rng, []byte{4, 5})})
	}
	dump := sim.Phase{Ops: []sim.Op{{K: "api_custom", C: -1, Custom: "stats_dump"}}}
	sconn := func(i int, clean bool) sim.Op {
		op := sim.Op{K: "connect", C: i, Clean: clean, Ack: pick(rng, []string{"", "", "hold", "reconly"})}
		if p.Clients[i].Ver == 5 {
			op.ExpiryS = sim.U32(pick(rng, []uint32{0, 50, 50}))
			if chance(rng, 0.2) {
				op.MaxPkt = sim.U32(60)
			}
		} else if chance(rng, 0.5) {
			op.Clean = false
		}
		return op
	}
	var ph sim.Phase
	for i := 0; i < ns; i++ {
		ph.Ops = append(ph.Ops, sconn(i, true), sim.Op{K: "subscribe", C: i, Subs: []mqttc.Sub{{Filter: "q/#", QoS: byte(rng.IntN(3))}}})
	}
	for i := ns; i < ns+np; i++ {
		ph.Ops = append(ph.Ops, sim.Op{K: "connect", C: i, Clean: true})
	}
	p.Phases = append(p.Phases, ph, dump)
	online := make([]bool, ns)
	for i := range online {
		online[i] = true
	}
	msg := 0
	rounds := 2 + rng.IntN(4)
	for r := 0; r < rounds; r++ {
		var ph sim.Phase
		for i := ns; i < ns+np; i++ {
			for k := 0; k < 1+rng.IntN(6); k++ {
				msg++
				op := sim.Op{K: "publish", C: i, Topic: "q/t", QoS: byte(rng.IntN(3)), Payload: fmt.Sprintf("z%d", msg), NoWait: chance(rng, 0.4)}
				if chance(rng, 0.15) {
					op.PadTo = 100
				} else if chance(rng, 0.2) {
					// sizes around the points where the remaining length needs one more byte (127/128, 16383/16384)
					op.PadTo = pick(rng, []int{110, 112, 114, 115, 116, 117, 118, 119, 120, 121, 122, 123, 124, 125, 16370, 16372, 16374, 16375, 16376, 16377, 16378, 16379, 16380})
				}
				ph.Ops = append(ph.Ops, op)
			}
		}
		for i := 0; i < ns; i++ {
			if chance(rng, 0.3) {
				ph.Ops = append(ph.Ops, sim.Op{K: "ping", C: i})
			}
		}
		p.Phases = append(p.Phases, ph, dump)
		// life-cycle events at a quiescent point
		var lp sim.Phase
		for i := 0; i < ns; i++ {
			if !chance(rng, 0.5) {
				continue
			}
			if online[i] {
				switch k := rng.IntN(5); {
				case k < 2:
					lp.Ops = append(lp.Ops, sim.Op{K: "cut", C: i})
					online[i] = false
				case k < 3:
					lp.Ops = append(lp.Ops, sim.Op{K: "disconnect", C: i})
					online[i] = false
				case k < 4:
					lp.Ops = append(lp.Ops, sconn(i, chance(rng, 0.3))) // take-over
				default:
					lp.Ops = append(lp.Ops, sim.Op{K: "release_acks", C: i, Ack: pick(rng, []string{"", "hold"})})
				}
			} else {
				lp.Ops = append(lp.Ops, sconn(i, chance(rng, 0.3)))
				online[i] = true
				if chance(rng, 0.5) {
					lp.Ops = append(lp.Ops, sim.Op{K: "subscribe", C: i, Subs: []mqttc.Sub{{Filter: "q/#", QoS: byte(rng.IntN(3))}}})
				}
			}
		}
		if chance(rng, 0.3) {
			lp.Advance = sim.Sec(pick(rng, []int{3, 8, 70, 200}))
		}
		p.Phases = append(p.Phases, lp, dump)
	}
	maybeRedis(rng, p, 0.2)
	return p
}

type c20truth struct {
	pktRecv, pktSent   map[byte]uint64
	byteRecv, byteSent map[byte]uint64
	msgRecv, msgSent   [3]uint64
	dropped            [3]uint64
	totalPR, totalPS   uint64
	totalBR, totalBS   uint64
}

func newTruth() *c20truth {
	return &c20truth{pktRecv: map[byte]uint64{}, pktSent: map[byte]uint64{}, byteRecv: map[byte]uint64{}, byteSent: map[byte]uint64{}}
}

func pcField(pc *server.PacketBytes, t byte) uint64 {
	switch t {
	case mqttc.AUTH:
		return pc.Auth
	case mqttc.CONNECT:
		return pc.Connect
	case mqttc.CONNACK:
		return pc.Connack
	case mqttc.DISCONNECT:
		return pc.Disconnect
	case mqttc.PINGREQ:
		return pc.Pingreq
	case mqttc.PINGRESP:
		return pc.Pingresp
	case mqttc.PUBACK:
		return pc.Puback
	case mqttc.PUBCOMP:
		return pc.Pubcomp
	case mqttc.PUBLISH:
		return pc.Publish
	case mqttc.PUBREC:
		return pc.Pubrec
	case mqttc.PUBREL:
		return pc.Pubrel
	case mqttc.SUBACK:
		return pc.Suback
	case mqttc.SUBSCRIBE:
		return pc.Subscribe
	case mqttc.UNSUBACK:
		return pc.Unsuback
	case mqttc.UNSUBSCRIBE:
		return pc.Unsubscribe
	}
	return 0
}

func oracleC20(p *sim.Plan, out *sim.Outcome) []sim.Violation {
	vs := genericOracle(p, out)
	h := out.H
	idOf := func(c int) string { return p.Clients[c].ID }
	cidx := map[string]int{}
	for i, c := range p.Clients {
		cidx[c.ID] = i
	}
	// connections that were cut by the client while packets could be in flight are avoided by the
	// generator (cuts happen in their own phase); still, only whole packets are counted here.
	for _, o := range h.Ops {
		if o.Op.K != "api_custom" || o.Ret == nil {
			continue
		}
		d, ok := o.Ret.(*sim.APIResult).Val.(*c20Dump)
		if !ok {
			continue
		}
		upto := o.Inv
		// ground truth up to this dump: per client since its statistics entry was (re)created, and globally
		per := map[string]*c20truth{}
		glob := newTruth()
		for _, c := range p.Clients {
			per[c.ID] = newTruth()
		}
		connAcked := map[int]bool{} // connection reached CONNACK success
		onlineConns := 0
		open := map[int]bool{}
		// queue model per client id: attempts - done - dropped
		type qm struct{ inflight map[uint16]bool }
		pendingConnect := map[string]*sim.Rec{}
		for _, r := range h.Recs {
			if r.Step > upto {
				break
			}
			if r.Kind == "tx" && r.C >= 0 && r.Pkt != nil && r.Pkt.Type == mqttc.CONNECT {
				pendingConnect[idOf(r.C)] = r
			}
			if r.Kind == "rx" && r.C >= 0 && r.Pkt.Type == mqttc.CONNACK {
				delete(pendingConnect, idOf(r.C))
			}
			switch r.Kind {
			case "hook":
				switch r.Note {
				case "session_terminated":
					v := r.Val.([2]string)
					if _, ok := per[v[0]]; ok {
						per[v[0]] = newTruth()
						// a CONNECT that is being processed right now (it ended the old session) is
						// accounted to the new statistics entry
						if pc := pendingConnect[v[0]]; pc != nil {
							t := per[v[0]]
							t.pktRecv[mqttc.CONNECT]++
							t.byteRecv[mqttc.CONNECT] += uint64(pc.Size)
							t.totalPR++
							t.totalBR += uint64(pc.Size)
						}
					}
				case "dropped":
					di := r.Val.(sim.DropInfo)
					if di.QoS <= 2 {
						glob.dropped[di.QoS]++
						if t := per[di.Client]; t != nil {
							t.dropped[di.QoS]++
						}
					}
				}
			case "tx":
				if r.C < 0 || r.Pkt == nil {
					continue
				}
				t := per[idOf(r.C)]
				for _, x := range []*c20truth{t, glob} {
					x.pktRecv[r.Pkt.Type]++
					x.byteRecv[r.Pkt.Type] += uint64(r.Size)
					x.totalPR++
					x.totalBR += uint64(r.Size)
					if r.Pkt.Type == mqttc.PUBLISH {
						x.msgRecv[r.Pkt.QoS]++
					}
				}
			case "rx":
				if r.C < 0 {
					continue
				}
				t := per[idOf(r.C)]
				for _, x := range []*c20truth{t, glob} {
					x.pktSent[r.Pkt.Type]++
					x.byteSent[r.Pkt.Type] += uint64(r.Size)
					x.totalPS++
					x.totalBS += uint64(r.Size)
					if r.Pkt.Type == mqttc.PUBLISH {
						x.msgSent[r.Pkt.QoS]++
					}
				}
				if r.Pkt.Type == mqttc.CONNACK && r.Pkt.Code == 0 {
					connAcked[r.Conn] = true
					open[r.Conn] = true
				}
			case "cclose", "bclose":
				delete(open, r.Conn)
			}
		}
		onlineConns = len(open)
		where := fmt.Sprintf("dump at step %d", upto)
		cmpPkts := func(scope string, ps *server.PacketStats, t *c20truth) {
			var types []int
			for ty := 1; ty <= 15; ty++ {
				types = append(types, ty)
			}
			sort.Ints(types)
			for _, ty := range types {
				b := byte(ty)
				if g, w := pcField(&ps.ReceivedTotal, b), t.pktRecv[b]; g != w {
					vs = append(vs, viol("C20", "packets", "recv-count-"+mqttc.TypeName(b), "%s %s: %s packets received = %d, exchanged on the wire %d", where, scope, mqttc.TypeName(b), g, w))
				}
				if g, w := pcField(&ps.SentTotal, b), t.pktSent[b]; g != w {
					vs = append(vs, viol("C20", "packets", "sent-count-"+mqttc.TypeName(b), "%s %s: %s packets sent = %d, exchanged on the wire %d", where, scope, mqttc.TypeName(b), g, w))
				}
				if g, w := pcField(&ps.BytesReceived, b), t.byteRecv[b]; g != w {
					vs = append(vs, viol("C20", "bytes", "recv-bytes-"+mqttc.TypeName(b), "%s %s: %s bytes received = %d, exchanged on the wire %d", where, scope, mqttc.TypeName(b), g, w))
				}
				if g, w := pcField(&ps.BytesSent, b), t.byteSent[b]; g != w {
					vs = append(vs, viol("C20", "bytes", "sent-bytes-"+mqttc.TypeName(b), "%s %s: %s bytes sent = %d, exchanged on the wire %d", where, scope, mqttc.TypeName(b), g, w))
				}
			}
			if ps.ReceivedTotal.Total != t.totalPR || ps.SentTotal.Total != t.totalPS {
				vs = append(vs, viol("C20", "packets", "total-count", "%s %s: packet totals received/sent = %d/%d, on the wire %d/%d", where, scope, ps.ReceivedTotal.Total, ps.SentTotal.Total, t.totalPR, t.totalPS))
			}
			if ps.BytesReceived.Total != t.totalBR || ps.BytesSent.Total != t.totalBS {
				vs = append(vs, viol("C20", "bytes", "total-bytes", "%s %s: byte totals received/sent = %d/%d, on the wire %d/%d", where, scope, ps.BytesReceived.Total, ps.BytesSent.Total, t.totalBR, t.totalBS))
			}
		}
		cmpMsgs := func(scope string, ms *server.MessageStats, t *c20truth) {
			qs := []*server.MessageQosStats{&ms.Qos0, &ms.Qos1, &ms.Qos2}
			for q := 0; q < 3; q++ {
				if qs[q].ReceivedTotal != t.msgRecv[q] {
					vs = append(vs, viol("C20", "messages", fmt.Sprintf("received-q%d", q), "%s %s: QoS %d messages received = %d, PUBLISH packets received %d", where, scope, q, qs[q].ReceivedTotal, t.msgRecv[q]))
				}
				if qs[q].SentTotal != t.msgSent[q] {
					vs = append(vs, viol("C20", "messages", fmt.Sprintf("sent-q%d", q), "%s %s: QoS %d messages sent = %d, PUBLISH packets written %d", where, scope, q, qs[q].SentTotal, t.msgSent[q]))
				}
				if g := qs[q].GetDroppedTotal(); g != t.dropped[q] {
					vs = append(vs, viol("C20", "messages", fmt.Sprintf("dropped-q%d", q), "%s %s: QoS %d messages dropped = %d, OnMsgDropped reported %d", where, scope, q, g, t.dropped[q]))
				}
			}
		}
		cmpPkts("global", &d.Global.PacketStats, glob)
		cmpMsgs("global", &d.Global.MessageStats, glob)
		var ids []string
		for id := range d.Clients {
			ids = append(ids, id)
		}
		sort.Strings(ids)
		var sumQ, sumI uint64
		for _, id := range ids {
			cs := d.Clients[id]
			if !d.Exists[id] {
				continue
			}
			cmpPkts("client "+id, &cs.PacketStats, per[id])
			cmpMsgs("client "+id, &cs.MessageStats, per[id])
			sumQ += cs.MessageStats.QueuedCurrent
			sumI += cs.MessageStats.InflightCurrent
			if cs.MessageStats.QueuedCurrent > 1<<62 || cs.MessageStats.InflightCurrent > 1<<62 {
				vs = append(vs, viol("C20", "no_wrap", "client-gauge", "%s client %s: gauge wrapped below zero (queued %d, inflight %d)", where, id, cs.MessageStats.QueuedCurrent, cs.MessageStats.InflightCurrent))
			}
		}
		// gauges
		g := d.Global
		for name, v := range map[string]uint64{"QueuedCurrent": g.MessageStats.QueuedCurrent, "InflightCurrent": g.MessageStats.InflightCurrent, "ActiveCurrent": g.ConnectionStats.ActiveCurrent, "InactiveCurrent": g.ConnectionStats.InactiveCurrent, "SubscriptionsCurrent": g.SubscriptionStats.SubscriptionsCurrent} {
			if v > 1<<62 {
				vs = append(vs, viol("C20", "no_wrap", "global-"+name, "%s: global gauge %s wrapped below zero (%d)", where, name, v))
			}
		}
		if g.MessageStats.QueuedCurrent != sumQ {
			vs = append(vs, viol("C20", "gauges", "queued-sum", "%s: global QueuedCurrent %d != sum over existing clients %d", where, g.MessageStats.QueuedCurrent, sumQ))
		}
		if g.MessageStats.InflightCurrent != sumI {
			vs = append(vs, viol("C20", "gauges", "inflight-sum", "%s: global InflightCurrent %d != sum over existing clients %d", where, g.MessageStats.InflightCurrent, sumI))
		}
		if int(g.ConnectionStats.ActiveCurrent) != d.Online || d.Online != onlineConns {
			vs = append(vs, viol("C20", "gauges", "active", "%s: ActiveCurrent %d, online client list %d, connections the simulator sees attached %d", where, g.ConnectionStats.ActiveCurrent, d.Online, onlineConns))
		}
		if int(g.ConnectionStats.InactiveCurrent) != d.Sessions-d.Online {
			vs = append(vs, viol("C20", "gauges", "inactive", "%s: InactiveCurrent %d, offline sessions in the session store %d (sessions %d - online %d)", where, g.ConnectionStats.InactiveCurrent, d.Sessions-d.Online, d.Sessions, d.Online))
		}
		// per-client in-flight gauge against the client's own view at a quiescent point: QoS>0 PUBLISH
		// packets received and not finally acknowledged by the client (every ack sent so far was processed)
		for _, id := range ids {
			if !d.Exists[id] {
				continue
			}
			ci := cidx[id]
			out := map[uint16]bool{}
			relStage := map[uint16]bool{} // PUBREC sent: the broker holds only a PUBREL entry, which it may expire silently
			for _, r := range h.Recs {
				if r.Step > upto {
					break
				}
				if r.C != ci || r.Pkt == nil {
					continue
				}
				switch {
				case r.Kind == "rx" && r.Pkt.Type == mqttc.CONNACK && !r.Pkt.SessionPresent:
					out = map[uint16]bool{}
					relStage = map[uint16]bool{}
				case r.Kind == "tx" && r.Pkt.Type == mqttc.PUBREC && r.Pkt.Code < 0x80:
					if out[r.Pkt.PID] {
						relStage[r.Pkt.PID] = true
					}
				case r.Kind == "rx" && r.Pkt.Type == mqttc.PUBLISH && r.Pkt.QoS > 0:
					out[r.Pkt.PID] = true
					delete(relStage, r.Pkt.PID)
				case r.Kind == "tx" && (r.Pkt.Type == mqttc.PUBACK || r.Pkt.Type == mqttc.PUBCOMP):
					delete(out, r.Pkt.PID)
					delete(relStage, r.Pkt.PID)
				case r.Kind == "tx" && r.Pkt.Type == mqttc.PUBREC && r.Pkt.Code >= 0x80:
					delete(out, r.Pkt.PID)
				}
			}
			cs := d.Clients[id]
			// in-flight entries the broker dropped as expired are reported through the hook; allow for them
			n := uint64(len(out))
			dq := per[id].dropped[1] + per[id].dropped[2]
			if cs.MessageStats.InflightCurrent > n || cs.MessageStats.InflightCurrent+dq+uint64(len(relStage)) < n {
				vs = append(vs, viol("C20", "gauges", "client-inflight", "%s client %s: InflightCurrent %d, QoS>0 PUBLISH packets the client holds un-acknowledged %d (QoS>0 drops reported: %d)", where, id, cs.MessageStats.InflightCurrent, n, dq))
			}
			if n, ok := d.QueueLen[id]; ok && n >= 0 && d.Exists[id] && uint64(n) != cs.MessageStats.QueuedCurrent {
				vs = append(vs, viol("C20", "gauges", "queued-vs-queue", "%s client %s: QueuedCurrent %d but its queue holds %d elements", where, id, cs.MessageStats.QueuedCurrent, n))
			}
			if cs.MessageStats.QueuedCurrent < cs.MessageStats.InflightCurrent {
				vs = append(vs, viol("C20", "gauges", "queued-lt-inflight", "%s client %s: QueuedCurrent %d < InflightCurrent %d", where, id, cs.MessageStats.QueuedCurrent, cs.MessageStats.InflightCurrent))
			}
		}
		_ = reflect.DeepEqual
	}
	return vs
}

// connOfClient returns the latest connection of client ci opened before step.
func connOfClient(h *sim.History, ci, step int) int {
	c := -1
	for _, r := range h.Recs {
		if r.Step > step {
			break
		}
		if r.Kind == "open" && r.C == ci {
			c = r.Conn
		}
	}
	return c
}
