package checks

import (
	"bufio"
	"encoding/json"
	"fmt"
	"math/rand/v2"
	"os"
	"runtime"
	"strconv"
	"strings"
	"sync/atomic"
	"testing"
	"time"

	"verifsim/sim"
	"verifsim/simredis"
	"verifsim/simrt"
)

// RunResult is one line of a worker's output.
type RunResult struct {
	Idx        int
	Seed       uint64
	Steps      int
	Switches   int
	SimUs      int64
	Ops        int
	Clients    int
	Faults     map[string]int `json:",omitempty"`
	Probes     map[string]int `json:",omitempty"`
	SchedSig   string
	Hash       string
	Nontrivial bool
	Inconcl    string   `json:",omitempty"`
	Viol       []string `json:",omitempty"`
	ViolFile   string   `json:",omitempty"`
	WallUs     int64
	Leaked     bool `json:",omitempty"`
	Sample     any  `json:",omitempty"`
}

// ReplayFile is what a violation is saved as.
type ReplayFile struct {
	Property  string
	Clause    string
	Sig       string
	Message   string
	Seed      uint64
	RunIdx    int
	Tier      string
	Hash      string
	Minimised bool
	AllViol   []sim.Violation
	Plan      *sim.Plan
}

var runStart atomic.Int64

func watchdog() {
	lim := 120 * time.Second
	if v := os.Getenv("VERIF_WATCHDOG_S"); v != "" {
		n, _ := strconv.Atoi(v)
		lim = time.Duration(n) * time.Second
	}
	go func() {
		for {
			time.Sleep(2 * time.Second)
			st := runStart.Load()
			if st != 0 && time.Since(time.Unix(0, st)) > lim {
				buf := make([]byte, 1<<20)
				n := runtime.Stack(buf, true)
				fmt.Fprintf(os.Stderr, "WATCHDOG: a simulated run exceeded %v of real time; the simulator lost control\n%s\n", lim, buf[:n])
				os.Exit(2)
			}
		}
	}()
}

// execPlan runs one plan and judges it.
func execPlan(t *testing.T, ck *Check, plan *sim.Plan) (*sim.Outcome, []sim.Violation, string) {
	runStart.Store(time.Now().UnixNano())
	defer runStart.Store(0)
	var out *sim.Outcome
	var redisStore *simredis.Server
	if ck.Custom != nil {
		out = ck.Custom(t, plan)
	} else {
		var setup *sim.Setup
		if ck.Setup != nil {
			setup = ck.Setup(plan)
		}
		if plan.Broker.Persistence == "redis" {
			// swarm: this run's broker keeps sessions, subscriptions, queues and unacknowledged ids in (simulated) redis
			st := simredis.NewServer(plan.Seed)
			fmt.Sscan(plan.Params["redis_lat_us"], &st.ReplyLatMaxUs)
			// storage faults: the k-th command is answered with an error reply / breaks the connection
			for _, f := range strings.Fields(plan.Params["redis_err_at"]) {
				if n, err := strconv.Atoi(f); err == nil {
					st.ErrAt[n] = true
				}
			}
			for _, f := range strings.Fields(plan.Params["redis_drop_at"]) {
				if n, err := strconv.Atoi(f); err == nil {
					st.DropAt[n] = true
				}
			}
			st.ErrMatch = plan.Params["redis_err_match"]
			redisStore = st
			simredis.Install(st)
			defer simredis.Install(nil)
		}
		out = sim.Run(t, plan, setup)
		if redisStore != nil && out.Faults != nil {
			for k, v := range redisStore.Fired {
				out.Faults[k] += v
			}
		}
	}
	inconcl := ""
	if out.LoopErr == simrt.ErrStepBudget {
		inconcl = "step budget"
	} else if out.LoopErr != nil {
		inconcl = out.LoopErr.Error()
	}
	if out.H == nil {
		return out, nil, "no history"
	}
	vs := ck.Oracle(plan, out)
	vs = append(vs, harvestRaces(ck.ID)...)
	return out, vs, inconcl
}

func genPlan(ck *Check, base uint64, idx int, tier string) *sim.Plan {
	seed := RunSeed(base, ck.ID, idx)
	rng := rand.New(rand.NewPCG(seed, 0x67656e))
	p := ck.Gen(rng, tier)
	p.Seed = seed
	return p
}

func envInt(k string, def int) int {
	if v := os.Getenv(k); v != "" {
		n, err := strconv.Atoi(v)
		if err == nil {
			return n
		}
	}
	return def
}

func TestWorker(t *testing.T) {
	mode := os.Getenv("VERIF_MODE")
	if mode == "" {
		t.Skip("worker entry point; run through bin/check")
	}
	watchdog()
	switch mode {
	case "batch":
		workerBatch(t)
	case "replay":
		workerReplay(t)
	case "minimize":
		workerMinimize(t)
	case "detlog":
		workerDetlog(t)
	default:
		t.Fatalf("unknown VERIF_MODE %q", mode)
	}
}

func workerBatch(t *testing.T) {
	ck := Get(os.Getenv("VERIF_PROP"))
	if ck == nil {
		fmt.Fprintln(os.Stderr, "unknown property", os.Getenv("VERIF_PROP"))
		os.Exit(2)
	}
	base, _ := strconv.ParseUint(os.Getenv("VERIF_SEED"), 10, 64)
	from, to, stride := envInt("VERIF_FROM", 0), envInt("VERIF_TO", 100), envInt("VERIF_STRIDE", 1)
	tier := os.Getenv("VERIF_TIER")
	budget := time.Duration(envInt("VERIF_BUDGET_S", 60)) * time.Second
	outPath := os.Getenv("VERIF_OUT")
	f, err := os.OpenFile(outPath, os.O_CREATE|os.O_APPEND|os.O_WRONLY, 0o644)
	if err != nil {
		fmt.Fprintln(os.Stderr, err)
		os.Exit(2)
	}
	defer f.Close()
	bw := bufio.NewWriter(f)
	defer bw.Flush()
	start := time.Now()
	leaks := 0
	nviolFiles := 0
	sigFiled := map[string]bool{}
	for idx := from; idx < to; idx += stride {
		if time.Since(start) > budget {
			break
		}
		plan := genPlan(ck, base, idx, tier)
		t0 := time.Now()
		out, vs, inconcl := execPlan(t, ck, plan)
		rr := RunResult{Idx: idx, Seed: plan.Seed, Steps: out.Steps, Switches: out.Switches, SimUs: out.SimTime.Microseconds(), Ops: plan.NumOps(), Clients: len(plan.Clients),
			Faults: out.Faults, Probes: out.Probes, SchedSig: fmt.Sprintf("%016x", out.SchedSig), Hash: out.Hash, Inconcl: inconcl, WallUs: time.Since(t0).Microseconds(), Leaked: out.Leaked}
		if ck.Nontrivial != nil && out.H != nil {
			rr.Nontrivial = ck.Nontrivial(plan, out)
		}
		if idx < from+3*stride {
			rr.Sample = samplePlan(plan)
		}
		for _, v := range vs {
			rr.Viol = append(rr.Viol, v.Prop+"."+v.Clause+"|"+v.Sig+"|"+v.Msg)
		}
		newSig := false
		for _, v := range vs {
			if k := v.Clause + "|" + v.Sig; !sigFiled[k] {
				newSig = true
			}
		}
		if len(vs) > 0 && (nviolFiles < 40 || newSig) {
			// every (clause, signature) seen by this worker gets at least one replay file
			for _, v := range vs {
				sigFiled[v.Clause+"|"+v.Sig] = true
			}
			nviolFiles++
			pl := plan.Clone()
			pl.Sched.Choices = out.Trace
			pl.Sched.Explicit = true
			rf := ReplayFile{Property: ck.ID, Clause: vs[0].Clause, Sig: vs[0].Sig, Message: vs[0].Msg, Seed: base, RunIdx: idx, Tier: tier, Hash: out.Hash, AllViol: vs, Plan: pl}
			name := fmt.Sprintf("%s.viol-%d.json", strings.TrimSuffix(outPath, ".jsonl"), idx)
			b, _ := json.MarshalIndent(rf, "", " ")
			os.WriteFile(name, b, 0o644)
			rr.ViolFile = name
		}
		b, _ := json.Marshal(rr)
		bw.Write(b)
		bw.WriteByte('\n')
		bw.Flush()
		if out.Leaked {
			leaks++
			if leaks >= 25 {
				bw.Flush()
				os.Exit(3) // ask the driver for a fresh process
			}
		}
	}
}

func samplePlan(p *sim.Plan) any {
	type ph struct {
		Ops []string
		Adv int64 `json:",omitempty"`
	}
	var phs []ph
	for _, x := range p.Phases {
		var ops []string
		for _, o := range x.Ops {
			s := fmt.Sprintf("%d:%s", o.C, o.K)
			switch o.K {
			case "publish", "api_publish":
				s += fmt.Sprintf("(%s q%d r%v %s)", o.Topic, o.QoS, o.Retain, o.Payload)
			case "subscribe", "api_subscribe":
				for _, sb := range o.Subs {
					s += fmt.Sprintf("(%s q%d)", sb.Filter, sb.QoS)
				}
			case "unsubscribe":
				s += fmt.Sprint(o.Filters)
			case "connect":
				s += fmt.Sprintf("(clean=%v)", o.Clean)
			}
			ops = append(ops, s)
		}
		phs = append(phs, ph{ops, int64(x.Advance)})
	}
	return map[string]any{"broker": p.Broker, "net": p.Net, "switch_prob": p.Sched.SwitchProb, "clients": p.Clients, "phases": phs}
}

func loadReplay(path string) (*ReplayFile, error) {
	b, err := os.ReadFile(path)
	if err != nil {
		return nil, err
	}
	var rf ReplayFile
	if err := json.Unmarshal(b, &rf); err != nil {
		return nil, err
	}
	if rf.Plan == nil {
		return nil, fmt.Errorf("replay file has no plan")
	}
	return &rf, nil
}

func hasViol(vs []sim.Violation, clause, sig string) *sim.Violation {
	for i := range vs {
		if vs[i].Clause == clause && (sig == "" || vs[i].Sig == sig) {
			return &vs[i]
		}
	}
	return nil
}

// workerReplay re-executes a replay file and reports whether the same violation occurs.
func workerReplay(t *testing.T) {
	rf, err := loadReplay(os.Getenv("VERIF_FILE"))
	if err != nil {
		fmt.Fprintln(os.Stderr, "replay:", err)
		os.Exit(2)
	}
	ck := Get(rf.Property)
	if ck == nil {
		fmt.Fprintln(os.Stderr, "replay: unknown property", rf.Property)
		os.Exit(2)
	}
	out, vs, _ := execPlan(t, ck, rf.Plan)
	if os.Getenv("VERIF_DUMP") != "" && out.H != nil {
		for _, r := range out.H.Recs {
			pk := ""
			if r.Pkt != nil {
				pk = r.Pkt.String()
				if len(r.Pkt.Payload) > 0 && len(r.Pkt.Payload) < 40 {
					pk += " " + string(r.Pkt.Payload)
				}
			}
			val := ""
			if r.Val != nil {
				val = fmt.Sprintf("%+v", r.Val)
			}
			fmt.Printf("%6d %12v %-8s c=%d conn=%d op=%d %s %s %s\n", r.Step, r.T, r.Kind, r.C, r.Conn, r.Op, pk, r.Note, val)
		}
		for _, o := range out.H.Ops {
			fmt.Printf("op %d ph%d actor %d %s inv=%d resp=%d %s pid=%d\n", o.Idx, o.Phase, o.Op.C, o.Op.K, o.Inv, o.Resp, o.Result, o.PID)
		}
		if out.W != nil {
			fmt.Println("alive after stop:", out.W.LeakedAfterStop)
			fmt.Println("alive after cut:", out.W.LeakedAfterCut)
		}
	}
	v := hasViol(vs, rf.Clause, rf.Sig)
	res := map[string]any{"reproduced": v != nil, "hash": out.Hash, "hash_expected": rf.Hash, "same_hash": out.Hash == rf.Hash, "steps": out.Steps}
	if v != nil {
		res["violation"] = v.String()
	}
	var all []string
	for _, x := range vs {
		all = append(all, x.String())
	}
	res["all"] = all
	b, _ := json.Marshal(res)
	fmt.Println("REPLAY-RESULT " + string(b))
}

// workerDetlog prints one hash per run for the determinism self-test.
func workerDetlog(t *testing.T) {
	ck := Get(os.Getenv("VERIF_PROP"))
	base, _ := strconv.ParseUint(os.Getenv("VERIF_SEED"), 10, 64)
	from, to := envInt("VERIF_FROM", 0), envInt("VERIF_TO", 50)
	tier := os.Getenv("VERIF_TIER")
	for idx := from; idx < to; idx++ {
		plan := genPlan(ck, base, idx, tier)
		out, vs, _ := execPlan(t, ck, plan)
		fmt.Printf("DET %s %d %s %d %d %d\n", ck.ID, idx, out.Hash, out.Steps, len(out.Trace), len(vs))
		if f := os.Getenv("VERIF_SCHEDLOG"); f != "" {
			os.WriteFile(fmt.Sprintf("%s.%d", f, idx), []byte(strings.Join(out.SchedLog, "\n")+"\n"), 0o644)
		}
	}
}
