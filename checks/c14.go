package checks

import (
	"context"
	"errors"
	"fmt"
	"math/rand/v2"
	"net"
	"sort"
	"strings"
	"sync"

	"github.com/DrmagicE/gmqtt"
	"github.com/DrmagicE/gmqtt/config"
	"github.com/DrmagicE/gmqtt/persistence/subscription"
	"github.com/DrmagicE/gmqtt/pkg/codes"
	"github.com/DrmagicE/gmqtt/pkg/packets"
	"github.com/DrmagicE/gmqtt/server"

	"verifsim/mqttc"
	"verifsim/sim"
)

// The deciding plugin rejects with shared sentinel errors, as plugins commonly do (gmqtt's own codes.ErrProtocol
// etc. are sentinels too): the broker must not modify an error value it is handed.
var (
	errC14NotAuthorized = codes.NewError(codes.NotAuthorized)
	errC14BadUser       = codes.NewError(codes.BadUserNameOrPassword)
	errC14Banned        = &codes.Error{Code: codes.Banned}
)

// C14: hook decisions are enforced; plugin wrappers compose in the configured order.

// c14Log is one entry of the call log written by the recording plugins.
type c14Log struct {
	Plugin string
	Hook   string
	Phase  string // enter | exit
	Key    string
}

type c14Run struct {
	w       *sim.World
	decider string          // the plugin that applies verdicts; the others pass through
	expose  map[string]bool // "plugin/hook" -> wrapper exposed
	loads   map[string]int
	unloads map[string]int
}

var (
	c14mu  sync.Mutex
	c14cur *c14Run
)

var c14Hooks = []string{"OnAccept", "OnBasicAuth", "OnEnhancedAuth", "OnReAuth", "OnConnected", "OnSessionCreated", "OnSessionResumed", "OnSessionTerminated",
	"OnSubscribe", "OnSubscribed", "OnUnsubscribe", "OnUnsubscribed", "OnMsgArrived", "OnDelivered", "OnClosed", "OnStop", "OnMsgDropped", "OnWillPublish", "OnWillPublished"}

type c14Plugin struct{ name string }

func (p *c14Plugin) Name() string { return p.name }
func (p *c14Plugin) Load(s server.Server) error {
	c14mu.Lock()
	defer c14mu.Unlock()
	if c14cur != nil {
		c14cur.loads[p.name]++
		if w := c14cur.w; w != nil {
			w.RecHook(0, "plg", c14Log{p.name, "Load", "enter", ""})
		}
	}
	return nil
}
func (p *c14Plugin) Unload() error {
	c14mu.Lock()
	defer c14mu.Unlock()
	if c14cur != nil {
		c14cur.unloads[p.name]++
		if w := c14cur.w; w != nil {
			w.RecHook(0, "plg", c14Log{p.name, "Unload", "enter", ""})
		}
	}
	return nil
}

func (p *c14Plugin) log(hook, phase, key string) {
	c14mu.Lock()
	r := c14cur
	c14mu.Unlock()
	if r != nil && r.w != nil {
		r.w.RecHook(0, "plg", c14Log{p.name, hook, phase, key})
	}
}

func (p *c14Plugin) decides() bool {
	c14mu.Lock()
	defer c14mu.Unlock()
	return c14cur != nil && c14cur.decider == p.name
}

func (p *c14Plugin) exposed(hook string) bool {
	c14mu.Lock()
	defer c14mu.Unlock()
	return c14cur != nil && c14cur.expose[p.name+"/"+hook]
}

var errC14 = errors.New("c14: rejected by plugin")

func (p *c14Plugin) HookWrapper() server.HookWrapper {
	var hw server.HookWrapper
	if p.exposed("OnAccept") {
		hw.OnAcceptWrapper = func(next server.OnAccept) server.OnAccept {
			return func(ctx context.Context, conn net.Conn) bool {
				p.log("OnAccept", "enter", conn.RemoteAddr().String())
				defer p.log("OnAccept", "exit", "")
				return next(ctx, conn)
			}
		}
	}
	if p.exposed("OnBasicAuth") {
		hw.OnBasicAuthWrapper = func(next server.OnBasicAuth) server.OnBasicAuth {
			return func(ctx context.Context, client server.Client, req *server.ConnectRequest) error {
				p.log("OnBasicAuth", "enter", string(req.Connect.ClientID))
				defer p.log("OnBasicAuth", "exit", "")
				if p.decides() {
					switch string(req.Connect.Username) {
					case "bad":
						return errC14BadUser
					case "banned":
						return errC14Banned
					case "plainerr":
						return errC14
					}
				}
				return next(ctx, client, req)
			}
		}
	}
	if p.exposed("OnEnhancedAuth") {
		hw.OnEnhancedAuthWrapper = func(next server.OnEnhancedAuth) server.OnEnhancedAuth {
			return func(ctx context.Context, client server.Client, req *server.ConnectRequest) (*server.EnhancedAuthResponse, error) {
				p.log("OnEnhancedAuth", "enter", string(req.Connect.ClientID))
				defer p.log("OnEnhancedAuth", "exit", "")
				if p.decides() {
					switch string(req.Connect.Properties.AuthMethod) {
					case "deny":
						return nil, errC14NotAuthorized
					case "chal":
						return &server.EnhancedAuthResponse{Continue: true, AuthData: []byte("challenge"), OnAuth: func(ctx context.Context, client server.Client, req *server.AuthRequest) (*server.AuthResponse, error) {
							p.log("OnAuth", "enter", string(req.Auth.Properties.AuthData))
							if string(req.Auth.Properties.AuthData) == "ok" {
								return &server.AuthResponse{Continue: false}, nil
							}
							return nil, errC14NotAuthorized
						}}, nil
					case "direct":
						return &server.EnhancedAuthResponse{Continue: false}, nil
					}
				}
				return next(ctx, client, req)
			}
		}
	}
	if p.exposed("OnReAuth") {
		hw.OnReAuthWrapper = func(next server.OnReAuth) server.OnReAuth {
			return func(ctx context.Context, client server.Client, auth *packets.Auth) (*server.AuthResponse, error) {
				p.log("OnReAuth", "enter", client.ClientOptions().ClientID)
				defer p.log("OnReAuth", "exit", "")
				if p.decides() {
					return &server.AuthResponse{Continue: false, AuthData: []byte("reauth-ok")}, nil
				}
				if next == nil {
					return &server.AuthResponse{}, nil
				}
				return next(ctx, client, auth)
			}
		}
	}
	simple := func(hook string) func(key string) func() {
		return func(key string) func() {
			p.log(hook, "enter", key)
			return func() { p.log(hook, "exit", "") }
		}
	}
	if p.exposed("OnConnected") {
		l := simple("OnConnected")
		hw.OnConnectedWrapper = func(next server.OnConnected) server.OnConnected {
			return func(ctx context.Context, client server.Client) {
				defer l(client.ClientOptions().ClientID)()
				next(ctx, client)
			}
		}
	}
	if p.exposed("OnSessionCreated") {
		l := simple("OnSessionCreated")
		hw.OnSessionCreatedWrapper = func(next server.OnSessionCreated) server.OnSessionCreated {
			return func(ctx context.Context, client server.Client) {
				defer l(client.ClientOptions().ClientID)()
				next(ctx, client)
			}
		}
	}
	if p.exposed("OnSessionResumed") {
		l := simple("OnSessionResumed")
		hw.OnSessionResumedWrapper = func(next server.OnSessionResumed) server.OnSessionResumed {
			return func(ctx context.Context, client server.Client) {
				defer l(client.ClientOptions().ClientID)()
				next(ctx, client)
			}
		}
	}
	if p.exposed("OnSessionTerminated") {
		l := simple("OnSessionTerminated")
		hw.OnSessionTerminatedWrapper = func(next server.OnSessionTerminated) server.OnSessionTerminated {
			return func(ctx context.Context, clientID string, reason server.SessionTerminatedReason) {
				defer l(clientID)()
				next(ctx, clientID, reason)
			}
		}
	}
	if p.exposed("OnSubscribe") {
		hw.OnSubscribeWrapper = func(next server.OnSubscribe) server.OnSubscribe {
			return func(ctx context.Context, client server.Client, req *server.SubscribeRequest) error {
				p.log("OnSubscribe", "enter", fmt.Sprint(req.Subscribe.PacketID))
				defer p.log("OnSubscribe", "exit", "")
				if p.decides() {
					for _, t := range req.Subscribe.Topics {
						switch {
						case strings.HasPrefix(t.Name, "deny/whole"):
							return errC14NotAuthorized
						case strings.HasPrefix(t.Name, "deny/topic"):
							req.Reject(t.Name, errC14NotAuthorized)
						case strings.HasPrefix(t.Name, "down/"):
							req.GrantQoS(t.Name, 0)
						}
					}
				}
				return next(ctx, client, req)
			}
		}
	}
	if p.exposed("OnSubscribed") {
		l := simple("OnSubscribed")
		hw.OnSubscribedWrapper = func(next server.OnSubscribed) server.OnSubscribed {
			return func(ctx context.Context, client server.Client, sub *gmqtt.Subscription) {
				defer l(client.ClientOptions().ClientID + "|" + sub.GetFullTopicName())()
				next(ctx, client, sub)
			}
		}
	}
	if p.exposed("OnUnsubscribe") {
		hw.OnUnsubscribeWrapper = func(next server.OnUnsubscribe) server.OnUnsubscribe {
			return func(ctx context.Context, client server.Client, req *server.UnsubscribeRequest) error {
				p.log("OnUnsubscribe", "enter", fmt.Sprint(req.Unsubscribe.PacketID))
				defer p.log("OnUnsubscribe", "exit", "")
				if p.decides() {
					for _, t := range req.Unsubscribe.Topics {
						if strings.HasPrefix(t, "keep/") {
							req.Reject(t, errC14NotAuthorized)
						}
					}
				}
				return next(ctx, client, req)
			}
		}
	}
	if p.exposed("OnUnsubscribed") {
		l := simple("OnUnsubscribed")
		hw.OnUnsubscribedWrapper = func(next server.OnUnsubscribed) server.OnUnsubscribed {
			return func(ctx context.Context, client server.Client, topicName string) {
				defer l(client.ClientOptions().ClientID + "|" + topicName)()
				next(ctx, client, topicName)
			}
		}
	}
	if p.exposed("OnMsgArrived") {
		hw.OnMsgArrivedWrapper = func(next server.OnMsgArrived) server.OnMsgArrived {
			return func(ctx context.Context, client server.Client, req *server.MsgArrivedRequest) error {
				p.log("OnMsgArrived", "enter", string(req.Publish.Payload))
				defer p.log("OnMsgArrived", "exit", "")
				if p.decides() {
					switch string(req.Publish.TopicName) {
					case "m/reject":
						return errC14NotAuthorized
					case "m/reject10":
						// an error is a refusal whatever its reason code (0x10 is not a failure code in an ack)
						return codes.NewError(codes.NotMatchingSubscribers)
					case "m/rejectplain":
						return errors.New("c14: refused with a plain error")
					case "m/drop":
						req.Drop()
					case "m/rewrite":
						req.Message.Topic = "m/rewritten"
						req.Message.Payload = append(append([]byte{}, req.Message.Payload...), '!')
						req.IterationOptions.TopicName = "m/rewritten"
					case "m/replace":
						req.Message = &gmqtt.Message{Topic: "m/rewritten", Payload: append(append([]byte{}, req.Publish.Payload...), '!'), QoS: req.Publish.Qos, Retained: req.Publish.Retain}
						req.IterationOptions.TopicName = "m/rewritten"
					}
				}
				return next(ctx, client, req)
			}
		}
	}
	if p.exposed("OnDelivered") {
		l := simple("OnDelivered")
		hw.OnDeliveredWrapper = func(next server.OnDelivered) server.OnDelivered {
			return func(ctx context.Context, client server.Client, msg *gmqtt.Message) {
				defer l(client.ClientOptions().ClientID + "|" + string(msg.Payload))()
				next(ctx, client, msg)
			}
		}
	}
	if p.exposed("OnClosed") {
		l := simple("OnClosed")
		hw.OnClosedWrapper = func(next server.OnClosed) server.OnClosed {
			return func(ctx context.Context, client server.Client, err error) {
				defer l(client.ClientOptions().ClientID)()
				next(ctx, client, err)
			}
		}
	}
	if p.exposed("OnStop") {
		l := simple("OnStop")
		hw.OnStopWrapper = func(next server.OnStop) server.OnStop {
			return func(ctx context.Context) {
				defer l("")()
				next(ctx)
			}
		}
	}
	if p.exposed("OnMsgDropped") {
		l := simple("OnMsgDropped")
		hw.OnMsgDroppedWrapper = func(next server.OnMsgDropped) server.OnMsgDropped {
			return func(ctx context.Context, clientID string, msg *gmqtt.Message, err error) {
				defer l(clientID + "|" + string(msg.Payload))()
				next(ctx, clientID, msg, err)
			}
		}
	}
	if p.exposed("OnWillPublish") {
		hw.OnWillPublishWrapper = func(next server.OnWillPublish) server.OnWillPublish {
			return func(ctx context.Context, clientID string, req *server.WillMsgRequest) {
				p.log("OnWillPublish", "enter", clientID)
				defer p.log("OnWillPublish", "exit", "")
				if p.decides() && req.Message != nil {
					switch req.Message.Topic {
					case "w/drop":
						req.Drop()
					case "w/edit":
						req.Message.Payload = append(req.Message.Payload, '!')
					case "w/replace":
						req.Message = &gmqtt.Message{Topic: "w/replaced", Payload: append(append([]byte{}, req.Message.Payload...), '!'), QoS: req.Message.QoS}
					}
				}
				next(ctx, clientID, req)
			}
		}
	}
	if p.exposed("OnWillPublished") {
		l := simple("OnWillPublished")
		hw.OnWillPublishedWrapper = func(next server.OnWillPublished) server.OnWillPublished {
			return func(ctx context.Context, clientID string, msg *gmqtt.Message) {
				defer l(clientID + "|" + string(msg.Payload))()
				next(ctx, clientID, msg)
			}
		}
	}
	return hw
}

type c14Dump struct {
	Sessions []string
	Clients  []string
	Subs     []string // client|full filter|qos
	Retained map[string]string
}

func init() {
	for _, n := range []string{"pa", "pb", "pc"} {
		n := n
		server.RegisterPlugin(n, func(cfg config.Config) (server.Plugin, error) { return &c14Plugin{name: n}, nil })
	}
	register(&Check{ID: "C14", Gen: genC14, Oracle: oracleC14,
		Setup: func(p *sim.Plan) *sim.Setup {
			run := &c14Run{decider: p.Params["decider"], expose: map[string]bool{}, loads: map[string]int{}, unloads: map[string]int{}}
			errC14NotAuthorized.Code, errC14BadUser.Code, errC14Banned.Code = codes.NotAuthorized, codes.BadUserNameOrPassword, codes.Banned
			for _, e := range strings.Split(p.Params["expose"], ",") {
				if e != "" {
					run.expose[e] = true
				}
			}
			c14mu.Lock()
			c14cur = run
			c14mu.Unlock()
			return &sim.Setup{
				Options: func(w *sim.World, n int) []server.Options {
					c14mu.Lock()
					run.w = w
					c14mu.Unlock()
					return nil
				},
				Custom: map[string]func(w *sim.World, op *sim.Op) any{
					"c14_dump": func(w *sim.World, op *sim.Op) any {
						srv := w.Nodes[0].Srv
						d := &c14Dump{Retained: map[string]string{}}
						srv.ClientService().IterateSession(func(s *gmqtt.Session) bool { d.Sessions = append(d.Sessions, s.ClientID); return true })
						srv.ClientService().IterateClient(func(c server.Client) bool {
							d.Clients = append(d.Clients, c.ClientOptions().ClientID)
							return true
						})
						srv.SubscriptionService().Iterate(func(cid string, s *gmqtt.Subscription) bool {
							d.Subs = append(d.Subs, fmt.Sprintf("%s|%s|%d", cid, s.GetFullTopicName(), s.QoS))
							return true
						}, subscription.IterationOptions{Type: subscription.TypeAll})
						srv.RetainedService().Iterate(func(m *gmqtt.Message) bool { d.Retained[m.Topic] = string(m.Payload); return true })
						sort.Strings(d.Sessions)
						sort.Strings(d.Clients)
						sort.Strings(d.Subs)
						return d
					},
					"c14_counts": func(w *sim.World, op *sim.Op) any {
						c14mu.Lock()
						defer c14mu.Unlock()
						return map[string]map[string]int{"loads": run.loads, "unloads": run.unloads}
					},
				},
			}
		},
		Nontrivial: func(p *sim.Plan, out *sim.Outcome) bool {
			n := 0
			for _, r := range out.H.Recs {
				if r.Kind == "hook" && r.Note == "plg" {
					n++
				}
			}
			return n >= 4
		}})
}

// genC14restart: wrappers must be installed for everything the broker does, also for sessions it restores from a
// durable store at start-up: a persistent session with a small queue is left offline, the broker is restarted on the
// same (redis) store, and messages that overflow the restored session's queue must reach every OnMsgDropped wrapper.
func genC14restart(rng *rand.Rand, p *sim.Plan, order []string) *sim.Plan {
	var exp []string
	for _, n := range order {
		for _, h := range c14Hooks {
			if chance(rng, 0.6) || h == "OnMsgDropped" && chance(rng, 0.8) {
				exp = append(exp, n+"/"+h)
			}
		}
	}
	p.Params = map[string]string{"scenario": "restart", "decider": "", "expose": strings.Join(exp, ","), "order": strings.Join(order, ","),
		"redis_lat_us": fmt.Sprint(pick(rng, []int{0, 30}))}
	p.Broker.Persistence = "redis"
	p.Broker.MaxQueued = 1 + rng.IntN(3)
	p.Broker.MaxInflight = 1
	p.Broker.SessionExpiryS = sim.Int(100000)
	p.Clients = []sim.ClientSpec{{ID: "keeper", Ver: pick(rng, []byte{4, 5})}, {ID: "pub", Ver: pick(rng, []byte{4, 5})}}
	keep := sim.Op{K: "connect", C: 0, Clean: false, Ack: "never"}
	if p.Clients[0].Ver == 5 {
		keep.ExpiryS = sim.U32(90000)
	}
	// before the restart the keeper is sent a message or two that it never acknowledges (in-flight entries in the
	// store); after the restart they have outlived the in-flight expiry when the queue overflows
	pre := sim.Phase{Ops: []sim.Op{{K: "connect", C: 1, Clean: true}}}
	for k := 0; k < rng.IntN(3); k++ {
		pre.Ops = append(pre.Ops, sim.Op{K: "publish", C: 1, Topic: "k/x", QoS: 1, Payload: fmt.Sprintf("i%d", k)})
	}
	p.Phases = append(p.Phases,
		sim.Phase{Ops: []sim.Op{keep, {K: "subscribe", C: 0, Subs: []mqttc.Sub{{Filter: "k/#", QoS: 1}}}}},
		pre,
		sim.Phase{Ops: []sim.Op{{K: "cut", C: 0}, {K: "cut", C: 1}}},
		sim.Phase{Ops: []sim.Op{{K: "api_stop", C: -1}}},
		sim.Phase{Ops: []sim.Op{{K: "api_start", C: -1}}, Advance: sim.Sec(pick(rng, []int{0, 1, 45}))})
	var pp sim.Phase
	pp.Ops = append(pp.Ops, sim.Op{K: "connect", C: 1, Clean: true})
	for k := 0; k < p.Broker.MaxQueued+1+rng.IntN(4); k++ {
		pp.Ops = append(pp.Ops, sim.Op{K: "publish", C: 1, Topic: "k/x", QoS: 1, Payload: fmt.Sprintf("r%d", k)})
	}
	p.Phases = append(p.Phases, pp)
	// the keeper comes back and acknowledges: what it is not given must have been reported dropped
	back := sim.Op{K: "connect", C: 0, Clean: false}
	if p.Clients[0].Ver == 5 {
		back.ExpiryS = sim.U32(90000)
	}
	p.Phases = append(p.Phases, sim.Phase{Ops: []sim.Op{back}})
	return p
}

func oracleC14restart(p *sim.Plan, out *sim.Outcome) []sim.Violation {
	vs := genericOracle(p, out)
	order := strings.Split(p.Params["order"], ",")
	expose := map[string]bool{}
	for _, e := range strings.Split(p.Params["expose"], ",") {
		expose[e] = true
	}
	// second life of the broker = everything after the last plugin Load
	start := 0
	for i, r := range out.H.Recs {
		if r.Kind == "hook" && r.Note == "plg" && r.Val.(c14Log).Hook == "Load" {
			start = i
		}
	}
	drops := 0 // OnMsgDropped events of the restored session, as seen by the innermost (base) hook
	calls := map[string]int{}
	for _, r := range out.H.Recs[start:] {
		if r.Kind == "hook" && r.Note == "dropped" {
			if d, ok := r.Val.(sim.DropInfo); ok && d.Client == "keeper" {
				drops++
			}
		}
		if r.Kind == "hook" && r.Note == "plg" {
			if l := r.Val.(c14Log); l.Hook == "OnMsgDropped" && l.Phase == "enter" {
				calls[l.Plugin]++
			}
		}
	}
	out.Probes["c14_restored_session_drops"] += drops
	// conservation across the restart: every message accepted for the keeper's session is given to it (before the
	// restart, or after it came back) or was reported through OnMsgDropped
	droppedPl := map[string]bool{}
	for _, r := range out.H.Recs {
		if r.Kind == "hook" && r.Note == "dropped" {
			if d, ok := r.Val.(sim.DropInfo); ok && d.Client == "keeper" {
				droppedPl[d.Payload] = true
			}
		}
	}
	resumed, resumeStep := false, 0
	gotBefore, gotAfter := map[string]bool{}, map[string]bool{}
	for _, r := range out.H.Recs {
		if r.Kind == "rx" && r.C == 0 && r.Pkt.Type == mqttc.CONNACK && r.Pkt.SessionPresent {
			resumed, resumeStep = true, r.Step
		}
	}
	for _, r := range out.H.Recs {
		if r.Kind == "rx" && r.C == 0 && r.Pkt.Type == mqttc.PUBLISH {
			if resumed && r.Step > resumeStep {
				gotAfter[string(r.Pkt.Payload)] = true
			} else {
				gotBefore[string(r.Pkt.Payload)] = true
			}
		}
	}
	if resumed && out.LoopErr == nil {
		for _, o := range out.H.Ops {
			if o.Op.K != "publish" || o.Ack == nil || o.Ack.Code >= 0x80 {
				continue
			}
			pl := o.Op.Payload
			if !gotAfter[pl] && !droppedPl[pl] {
				how := "was never given to it"
				if gotBefore[pl] {
					how = "had been sent to it before the restart, was never acknowledged, and was not retransmitted when it came back"
				}
				vs = append(vs, viol("C14", "installed", "restored-session-silent-drop", "message %q for the restored session \"keeper\" %s, and no OnMsgDropped hook ever reported it (max_queued_messages %d)", pl, how, p.Broker.MaxQueued))
			}
		}
	}
	for _, n := range order {
		if expose[n+"/OnMsgDropped"] && calls[n] != drops {
			vs = append(vs, viol("C14", "installed", "restored-session-OnMsgDropped", "after a restart %d messages were dropped from the queue of the restored session \"keeper\" (seen by the broker's own OnMsgDropped hook), but the OnMsgDropped wrapper of plugin %s was called %d times", drops, n, calls[n]))
		}
	}
	return vs
}

func genC14(rng *rand.Rand, tier string) *sim.Plan {
	p := NewPlan("C14", rng.Uint64(), rng)
	names := []string{"pa", "pb", "pc"}
	rng.Shuffle(3, func(i, j int) { names[i], names[j] = names[j], names[i] })
	order := names[:2+rng.IntN(2)]
	p.Broker.PluginOrder = append([]string{}, order...)
	if chance(rng, 0.12) {
		return genC14restart(rng, p, order)
	}
	var exp []string
	for _, n := range order {
		for _, h := range c14Hooks {
			if chance(rng, 0.75) {
				exp = append(exp, n+"/"+h)
			}
		}
	}
	decider := pick(rng, order)
	// the decider must expose the decision hooks
	for _, h := range []string{"OnBasicAuth", "OnEnhancedAuth", "OnSubscribe", "OnUnsubscribe", "OnMsgArrived", "OnWillPublish", "OnReAuth"} {
		exp = append(exp, decider+"/"+h)
	}
	p.Params = map[string]string{"decider": decider, "expose": strings.Join(exp, ","), "order": strings.Join(order, ",")}
	// clients: 0 watcher (subscribes everything), 1..3 actors
	p.Clients = []sim.ClientSpec{{ID: "watch", Ver: 5}, {ID: "u1", Ver: pick(rng, []byte{4, 5})}, {ID: "u2", Ver: 5}, {ID: "u3", Ver: pick(rng, []byte{4, 5})}}
	dump := sim.Op{K: "api_custom", C: -100, Custom: "c14_dump"}
	p.Phases = append(p.Phases, sim.Phase{Ops: []sim.Op{{K: "connect", C: 0, Clean: true},
		{K: "subscribe", C: 0, Subs: []mqttc.Sub{{Filter: "m/#", QoS: 2, RAP: true}, {Filter: "w/#", QoS: 2, RAP: true}}}}})
	// A. authentication verdicts
	var ph sim.Phase
	user := pick(rng, []string{"ok", "bad", "banned", "plainerr"})
	c1 := sim.Op{K: "connect", C: 1, Clean: true, User: &user, Will: &sim.Will{Topic: "w/u1", Payload: "will-u1", QoS: 1, Retain: true}}
	ph.Ops = append(ph.Ops, c1)
	method := pick(rng, []string{"", "deny", "chal", "chalbad", "direct"})
	c2 := sim.Op{K: "connect", C: 2, Clean: true, Will: &sim.Will{Topic: pick(rng, []string{"w/drop", "w/edit", "w/replace", "w/plain"}), Payload: "will-u2", QoS: 1}}
	switch method {
	case "deny", "direct":
		c2.AuthMethod = sim.Str(method)
	case "chal":
		c2.AuthMethod = sim.Str("chal")
		c2.AuthReply = []byte("ok")
	case "chalbad":
		c2.AuthMethod = sim.Str("chal")
		c2.AuthReply = []byte("nope")
	}
	p.Params["user"], p.Params["method"] = user, method
	ph.Ops = append(ph.Ops, c2, sim.Op{K: "connect", C: 3, Clean: true})
	p.Phases = append(p.Phases, ph, sim.Phase{Ops: []sim.Op{dump}})
	// B. subscriptions
	var sp sim.Phase
	filters := []string{"deny/whole/x", "deny/topic/x", "down/x", "plain/x", "keep/x", "m/#"}
	for _, c := range []int{1, 2, 3} {
		var subs []mqttc.Sub
		seen := map[string]bool{}
		for k := 0; k < 1+rng.IntN(3); k++ {
			f := pick(rng, filters)
			if !seen[f] {
				seen[f] = true
				subs = append(subs, mqttc.Sub{Filter: f, QoS: byte(1 + rng.IntN(2))})
			}
		}
		sp.Ops = append(sp.Ops, sim.Op{K: "subscribe", C: c, Subs: subs})
		if chance(rng, 0.5) {
			sp.Ops = append(sp.Ops, sim.Op{K: "unsubscribe", C: c, Filters: []string{pick(rng, filters)}})
		}
	}
	p.Phases = append(p.Phases, sp, sim.Phase{Ops: []sim.Op{dump}})
	// C. publishes
	var pp sim.Phase
	msg := 0
	for _, c := range []int{1, 3} {
		for k := 0; k < 1+rng.IntN(4); k++ {
			msg++
			pp.Ops = append(pp.Ops, sim.Op{K: "publish", C: c, Topic: pick(rng, []string{"m/reject", "m/reject10", "m/rejectplain", "m/drop", "m/rewrite", "m/replace", "m/plain"}), QoS: byte(rng.IntN(3)), Retain: chance(rng, 0.5), Payload: fmt.Sprintf("h%d", msg)})
		}
	}
	p.Phases = append(p.Phases, pp, sim.Phase{Ops: []sim.Op{dump}})
	// D. re-authentication, then the connections end abruptly (wills), then stop
	var rp sim.Phase
	if method == "chal" || method == "direct" {
		rp.Ops = append(rp.Ops, sim.Op{K: "reauth", C: 2, AuthMethod: sim.Str(method), AuthReply: []byte("re-" + method)}, sim.Op{K: "ping", C: 2})
	}
	rp.Ops = append(rp.Ops, sim.Op{K: "cut", C: 1}, sim.Op{K: "cut", C: 2, Delay: sim.Ms(2)})
	p.Phases = append(p.Phases, rp, sim.Phase{Ops: []sim.Op{dump}}, sim.Phase{Ops: []sim.Op{{K: "api_stop", C: -1}}}, sim.Phase{Ops: []sim.Op{{K: "api_custom", C: -100, Custom: "c14_counts"}}})
	return p
}

func oracleC14(p *sim.Plan, out *sim.Outcome) []sim.Violation {
	if p.Params["scenario"] == "restart" {
		return oracleC14restart(p, out)
	}
	vs := genericOracle(p, out)
	if errC14NotAuthorized.Code != codes.NotAuthorized || errC14BadUser.Code != codes.BadUserNameOrPassword || errC14Banned.Code != codes.Banned {
		vs = append(vs, viol("C14", "enforced", "hook-error-modified", "the broker modified an error value returned by a hook (reason codes now 0x%02x 0x%02x 0x%02x): the plugin's shared error values decide differently from now on", errC14NotAuthorized.Code, errC14BadUser.Code, errC14Banned.Code))
	}
	h := out.H
	order := strings.Split(p.Params["order"], ",")
	decider := p.Params["decider"]
	expose := map[string]bool{}
	for _, e := range strings.Split(p.Params["expose"], ",") {
		expose[e] = true
	}
	var logs []c14Log
	for _, r := range h.Recs {
		if r.Kind == "hook" && r.Note == "plg" {
			logs = append(logs, r.Val.(c14Log))
		}
	}
	// ---- composition: the call log must be properly nested in plugin_order
	type frame struct{ plugin, hook string }
	var stack []frame
	calls := map[string]int{} // "plugin/hook" -> completed calls
	idx := func(pl string) int {
		for i, n := range order {
			if n == pl {
				return i
			}
		}
		return -1
	}
	for _, l := range logs {
		if l.Hook == "OnAuth" || l.Hook == "Load" || l.Hook == "Unload" {
			continue
		}
		if l.Phase == "enter" {
			if len(stack) > 0 {
				top := stack[len(stack)-1]
				if top.hook == l.Hook && idx(l.Plugin) <= idx(top.plugin) {
					vs = append(vs, viol("C14", "order", "order-"+l.Hook, "%s: wrapper of plugin %s ran inside the wrapper of plugin %s, plugin_order is %v (first must be outermost)", l.Hook, l.Plugin, top.plugin, order))
				}
			}
			stack = append(stack, frame{l.Plugin, l.Hook})
		} else if len(stack) > 0 {
			top := stack[len(stack)-1]
			stack = stack[:len(stack)-1]
			calls[top.plugin+"/"+top.hook]++
		}
	}
	// every plugin exposing a hook is called as often as every other plugin exposing it (unless an outer
	// plugin legitimately short-circuits a decision hook)
	shortCircuit := map[string]bool{"OnBasicAuth": true, "OnEnhancedAuth": true, "OnSubscribe": true, "OnMsgArrived": true, "OnReAuth": true}
	for _, hk := range c14Hooks {
		var exp []string
		for _, n := range order {
			if expose[n+"/"+hk] {
				exp = append(exp, n)
			}
		}
		if len(exp) == 0 {
			continue
		}
		outer := calls[exp[0]+"/"+hk]
		for _, n := range exp[1:] {
			c := calls[n+"/"+hk]
			if c > outer || (c < outer && !shortCircuit[hk]) {
				vs = append(vs, viol("C14", "installed", "uneven-"+hk, "%s: outermost plugin %s was called %d times, plugin %s %d times", hk, exp[0], outer, n, c))
			}
		}
	}
	// ---- expected number of events, from the wire history
	count := func(kind string, t byte, pred func(r *sim.Rec) bool) int {
		n := 0
		for _, r := range h.Recs {
			if r.Kind == kind && r.Pkt != nil && r.Pkt.Type == t && (pred == nil || pred(r)) {
				n++
			}
		}
		return n
	}
	outerOf := func(hk string) string {
		for _, n := range order {
			if expose[n+"/"+hk] {
				return n
			}
		}
		return ""
	}
	expectCalls := func(hk string, want int, what string) {
		o := outerOf(hk)
		if o == "" {
			return
		}
		got := calls[o+"/"+hk]
		if got != want {
			clause, sig := "once", "count-"+hk
			if got == 0 && want > 0 {
				clause, sig = "installed", "never-called-"+hk
			}
			vs = append(vs, viol("C14", clause, sig, "%s wrapper of plugin %s was called %d times, expected %d (%s)", hk, o, got, want, what))
		}
	}
	nConnect := count("tx", mqttc.CONNECT, nil)
	nOpen := 0
	for _, r := range h.Recs {
		if r.Kind == "open" {
			nOpen++
		}
	}
	expectCalls("OnAccept", nOpen, "connections opened")
	basic := count("tx", mqttc.CONNECT, func(r *sim.Rec) bool { return r.Pkt.Props == nil || r.Pkt.Props.AuthMethod == nil })
	expectCalls("OnBasicAuth", basic, "CONNECT packets without authentication method")
	expectCalls("OnEnhancedAuth", nConnect-basic, "CONNECT packets with authentication method")
	okConn := count("rx", mqttc.CONNACK, func(r *sim.Rec) bool { return r.Pkt.Code == 0 })
	expectCalls("OnConnected", okConn, "successful CONNACKs")
	expectCalls("OnSessionCreated", count("rx", mqttc.CONNACK, func(r *sim.Rec) bool { return r.Pkt.Code == 0 && !r.Pkt.SessionPresent }), "CONNACKs with Session Present 0")
	expectCalls("OnSubscribe", count("tx", mqttc.SUBSCRIBE, nil), "SUBSCRIBE packets")
	expectCalls("OnUnsubscribe", count("tx", mqttc.UNSUBSCRIBE, nil), "UNSUBSCRIBE packets")
	granted := 0
	for _, r := range h.Recs {
		if r.Kind == "rx" && r.Pkt.Type == mqttc.SUBACK {
			for _, c := range r.Pkt.Codes {
				if c < 0x80 {
					granted++
				}
			}
		}
	}
	expectCalls("OnSubscribed", granted, "granted subscriptions in SUBACKs")
	expectCalls("OnMsgArrived", count("tx", mqttc.PUBLISH, nil), "PUBLISH packets received")
	expectCalls("OnClosed", okConn, "acknowledged connections, all closed by the end")
	expectCalls("OnStop", 1, "Stop")
	reauths := 0
	for _, o := range h.Ops {
		if o.Op.K == "reauth" && o.Inv >= 0 {
			reauths++
		}
	}
	if reauths > 0 {
		expectCalls("OnReAuth", reauths, "AUTH re-authentication packets")
		for _, o := range h.Ops {
			if o.Op.K == "reauth" && o.Inv >= 0 && (o.Result != "ok" || o.Ack == nil || o.Ack.Code != 0) {
				vs = append(vs, viol("C14", "installed", "reauth-refused", "re-authentication accepted by the OnReAuth hook was not answered with AUTH success (result %s)", o.Result))
			}
		}
	}
	// ---- decisions
	connackOf := func(c int) *mqttc.Packet {
		for _, o := range h.Ops {
			if o.Op.K == "connect" && o.Op.C == c {
				return o.Ack
			}
		}
		return nil
	}
	var dumps []*c14Dump
	var counts map[string]map[string]int
	for _, o := range h.Ops {
		if o.Op.K == "api_custom" && o.Ret != nil {
			switch v := o.Ret.(*sim.APIResult).Val.(type) {
			case *c14Dump:
				dumps = append(dumps, v)
			case map[string]map[string]int:
				counts = v
			}
		}
	}
	has := func(l []string, pre string) bool {
		for _, x := range l {
			if strings.HasPrefix(x, pre) {
				return true
			}
		}
		return false
	}
	user, method := p.Params["user"], p.Params["method"]
	rejected := map[int]bool{}
	if a := connackOf(1); a != nil {
		want := user == "ok"
		if (a.Code == 0) != want {
			vs = append(vs, viol("C14", "connect_reject", "basic-verdict", "OnBasicAuth verdict for user %q not reflected: CONNACK code %#x", user, a.Code))
		}
		rejected[1] = !want
	}
	if a := connackOf(2); a != nil {
		want := method == "" || method == "chal" || method == "direct"
		if (a.Code == 0) != want {
			vs = append(vs, viol("C14", "connect_reject", "enhanced-verdict", "OnEnhancedAuth / OnAuth verdict for method %q not reflected: CONNACK code %#x", method, a.Code))
		}
		rejected[2] = !want
	} else if method == "" || method == "chal" || method == "direct" {
		vs = append(vs, viol("C14", "connect_reject", "enhanced-verdict", "authentication with method %q should succeed but no CONNACK arrived", method))
	} else {
		rejected[2] = true
	}
	arr := map[string][]*mqttc.Packet{}
	for _, r := range h.Recs {
		if r.Kind == "rx" && r.C == 0 && r.Pkt.Type == mqttc.PUBLISH {
			arr[string(r.Pkt.Payload)] = append(arr[string(r.Pkt.Payload)], r.Pkt)
		}
	}
	for c, rej := range rejected {
		if !rej {
			continue
		}
		id := p.Clients[c].ID
		for i, d := range dumps {
			if has(d.Sessions, id) || has(d.Clients, id) || has(d.Subs, id+"|") {
				vs = append(vs, viol("C14", "connect_reject", "state-left", "dump %d: rejected client %s left state behind: sessions %v clients %v subs %v", i, id, d.Sessions, d.Clients, d.Subs))
			}
		}
		if len(arr["will-"+id]) > 0 || len(arr["will-"+id+"!"]) > 0 {
			vs = append(vs, viol("C14", "connect_reject", "will-published", "the will of rejected client %s was published", id))
		}
	}
	// subscriptions
	if len(dumps) >= 2 {
		d := dumps[1]
		for _, o := range h.Ops {
			if o.Op.K != "subscribe" || o.Op.C == 0 || o.Ack == nil {
				continue
			}
			id := p.Clients[o.Op.C].ID
			v3 := p.Clients[o.Op.C].Ver != 5
			whole := false
			for _, s := range o.Op.Subs {
				if strings.HasPrefix(s.Filter, "deny/whole") {
					whole = true
				}
			}
			for i, s := range o.Op.Subs {
				code := o.Ack.Codes[i]
				wantFail := whole || strings.HasPrefix(s.Filter, "deny/topic")
				wantQoS := s.QoS
				if strings.HasPrefix(s.Filter, "down/") {
					wantQoS = 0
				}
				switch {
				case wantFail && code < 0x80:
					vs = append(vs, viol("C14", "subscribe", "reject-not-reported", "subscription %q rejected by OnSubscribe got SUBACK code %#x", s.Filter, code))
				case !wantFail && code != wantQoS:
					vs = append(vs, viol("C14", "subscribe", "suback-code", "subscription %q: SUBACK code %#x, OnSubscribe granted QoS %d", s.Filter, code, wantQoS))
				case wantFail && v3 && code != 0x80:
					vs = append(vs, viol("C14", "subscribe", "v3-code", "v3 SUBACK failure code %#x", code))
				}
				// installed or not: unless a later UNSUBSCRIBE of the same client removed it
				unsub := false
				for _, u := range h.Ops {
					if u.Op.K == "unsubscribe" && u.Op.C == o.Op.C && u.Op.Filters[0] == s.Filter && !strings.HasPrefix(s.Filter, "keep/") {
						unsub = true
					}
				}
				inst := has(d.Subs, fmt.Sprintf("%s|%s|", id, s.Filter))
				if wantFail && inst {
					vs = append(vs, viol("C14", "subscribe", "installed-despite-reject", "subscription %s|%s rejected by OnSubscribe is installed", id, s.Filter))
				}
				if !wantFail && !unsub && !has(d.Subs, fmt.Sprintf("%s|%s|%d", id, s.Filter, wantQoS)) && !dupFilterLater(o, i) {
					vs = append(vs, viol("C14", "subscribe", "not-installed", "subscription %s|%s granted at QoS %d is not installed with that QoS: %v", id, s.Filter, wantQoS, d.Subs))
				}
			}
		}
		// an UNSUBSCRIBE rejected by OnUnsubscribe leaves the subscription
		for _, u := range h.Ops {
			if u.Op.K == "unsubscribe" && u.Ack != nil && strings.HasPrefix(u.Op.Filters[0], "keep/") {
				id := p.Clients[u.Op.C].ID
				had := false
				for _, o := range h.Ops {
					if o.Op.K == "subscribe" && o.Op.C == u.Op.C && o.Ack != nil && o.Idx < u.Idx {
						for i, s := range o.Op.Subs {
							if s.Filter == u.Op.Filters[0] && o.Ack.Codes[i] < 0x80 {
								had = true
							}
						}
					}
				}
				if had && !has(d.Subs, id+"|"+u.Op.Filters[0]+"|") {
					vs = append(vs, viol("C14", "subscribe", "unsubscribe-despite-reject", "UNSUBSCRIBE of %q was rejected by OnUnsubscribe but the subscription is gone", u.Op.Filters[0]))
				}
				if p.Clients[u.Op.C].Ver == 5 && len(u.Ack.Codes) > 0 && u.Ack.Codes[0] < 0x80 {
					vs = append(vs, viol("C14", "subscribe", "unsuback-code", "UNSUBACK code %#x for an UNSUBSCRIBE rejected by OnUnsubscribe", u.Ack.Codes[0]))
				}
			}
		}
	}
	// publishes
	if len(dumps) >= 3 {
		d := dumps[2]
		lastRetained := map[string]string{}
		for _, o := range h.Ops {
			if o.Op.K != "publish" || o.Inv < 0 || rejected[o.Op.C] {
				continue
			}
			pl := o.Op.Payload
			switch o.Op.Topic {
			case "m/reject", "m/reject10", "m/rejectplain", "m/drop":
				if len(arr[pl]) > 0 {
					vs = append(vs, viol("C14", "publish", "delivered-despite-"+o.Op.Topic[2:], "PUBLISH %q on %s was delivered although OnMsgArrived %sed it", pl, o.Op.Topic, o.Op.Topic[2:]))
				}
				if o.Op.Retain && d.Retained[o.Op.Topic] == pl {
					vs = append(vs, viol("C14", "publish", "retained-despite-"+o.Op.Topic[2:], "retained store holds %q for %s although OnMsgArrived %sed the PUBLISH", pl, o.Op.Topic, o.Op.Topic[2:]))
				}
			case "m/rewrite", "m/replace":
				if len(arr[pl]) > 0 {
					vs = append(vs, viol("C14", "publish", "original-delivered", "the original of rewritten PUBLISH %q was delivered", pl))
				}
				got := arr[pl+"!"]
				if len(got) != 1 {
					vs = append(vs, viol("C14", "publish", "rewritten-not-delivered", "PUBLISH %q rewritten by OnMsgArrived (%s) delivered %d times as %q", pl, o.Op.Topic, len(got), pl+"!"))
				} else if got[0].Topic != "m/rewritten" {
					vs = append(vs, viol("C14", "publish", "rewritten-topic", "rewritten PUBLISH %q delivered on topic %q", pl, got[0].Topic))
				}
				if o.Op.Retain {
					lastRetained["m/rewritten"] = pl + "!"
					if d.Retained[o.Op.Topic] == pl {
						vs = append(vs, viol("C14", "publish", "retained-original", "retained store holds the original %q under %s although OnMsgArrived rewrote the message", pl, o.Op.Topic))
					}
				}
			case "m/plain":
				if len(arr[pl]) != 1 {
					vs = append(vs, viol("C14", "publish", "plain-lost", "PUBLISH %q accepted by the hooks delivered %d times", pl, len(arr[pl])))
				}
			}
		}
		if want, ok := lastRetained["m/rewritten"]; ok {
			// concurrent publishers make "last" ambiguous; require only that some rewritten value is stored
			if got := d.Retained["m/rewritten"]; got == "" || !strings.HasSuffix(got, "!") {
				vs = append(vs, viol("C14", "publish", "retained-rewritten-missing", "retained store has %q under m/rewritten, expected a rewritten message such as %q", got, want))
			}
		}
	}
	// wills
	for _, c := range []int{1, 2} {
		if rejected[c] {
			continue
		}
		var wl *sim.Will
		for _, o := range h.Ops {
			if o.Op.K == "connect" && o.Op.C == c && o.Ack != nil && o.Ack.Code == 0 {
				wl = o.Op.Will
			}
		}
		if wl == nil {
			continue
		}
		plain, edited := arr[wl.Payload], arr[wl.Payload+"!"]
		switch wl.Topic {
		case "w/drop":
			if len(plain)+len(edited) > 0 {
				vs = append(vs, viol("C14", "will", "published-despite-drop", "will %q dropped by OnWillPublish was published", wl.Payload))
			}
		case "w/edit":
			if len(edited) != 1 || len(plain) != 0 {
				vs = append(vs, viol("C14", "will", "edit-ignored", "will edited in place by OnWillPublish: %d edited, %d original copies delivered", len(edited), len(plain)))
			}
		case "w/replace":
			if len(edited) != 1 || len(plain) != 0 {
				vs = append(vs, viol("C14", "will", "replace-ignored", "will message replaced by OnWillPublish: %d replaced, %d original copies delivered", len(edited), len(plain)))
			} else if edited[0].Topic != "w/replaced" {
				vs = append(vs, viol("C14", "will", "replace-topic", "replaced will delivered on %q", edited[0].Topic))
			}
		default:
			if len(plain) != 1 {
				vs = append(vs, viol("C14", "will", "plain-missing", "will %q delivered %d times", wl.Payload, len(plain)))
			}
		}
	}
	// Load / Unload exactly once per plugin
	if counts != nil {
		for _, n := range order {
			if counts["loads"][n] != 1 || counts["unloads"][n] != 1 {
				vs = append(vs, viol("C14", "once", "load-unload", "plugin %s: Load called %d times, Unload %d times", n, counts["loads"][n], counts["unloads"][n]))
			}
		}
	}
	_ = decider
	return vs
}

// dupFilterLater: the same filter appears again later in the same SUBSCRIBE (the later entry wins).
func dupFilterLater(o *sim.OpRec, i int) bool {
	for j := i + 1; j < len(o.Op.Subs); j++ {
		if o.Op.Subs[j].Filter == o.Op.Subs[i].Filter {
			return true
		}
	}
	return false
}
