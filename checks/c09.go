package checks

import (
	"fmt"
	"math/rand/v2"
	"sort"
	"strings"
	"testing"
	"time"

	"github.com/DrmagicE/gmqtt"
	"github.com/DrmagicE/gmqtt/persistence/subscription"

	"verifsim/mqttc"
	"verifsim/sim"
	"verifsim/simredis"
)

// C09: durable (redis) sessions survive a broker crash at any point.
//
// Fault enumeration over a recorded journal: run A executes a generated history against a broker with
// redis persistence on simredis and records the journal J of mutating commands; every acknowledgement
// the clients saw is stamped with the number of journal entries that preceded it. For each crash point
// k (a prefix of J — exactly what a process death between two commands leaves) run B materialises the
// store after J[:k], starts a NEW broker on it, reconnects every client with Clean Start 0 and checks
// what must have survived.

func init() {
	register(&Check{ID: "C09", Gen: genC09, Custom: runC09,
		Oracle:     func(p *sim.Plan, out *sim.Outcome) []sim.Violation { return out.Viol },
		Nontrivial: func(p *sim.Plan, out *sim.Outcome) bool { return out.Probes["crash_points"] >= 2 }})
}

var c09IDs = []string{"sub1", "bob", "s:u", "u1", "c1", "b", "subscriber", "k9"}

func genC09(rng *rand.Rand, tier string) *sim.Plan {
	p := NewPlan("C09", rng.Uint64(), rng)
	p.Broker.Persistence = "redis"
	p.Broker.SessionExpiryS = sim.Int(100000)
	ids := append([]string{}, c09IDs...)
	rng.Shuffle(len(ids), func(i, j int) { ids[i], ids[j] = ids[j], ids[i] })
	// 0: S1 never acks, 1: S2 goes offline, 2: publisher
	for i := 0; i < 3; i++ {
		p.Clients = append(p.Clients, sim.ClientSpec{ID: ids[i], Ver: pick(rng, []byte{4, 5})})
	}
	conn := func(i int, ack string) sim.Op {
		op := sim.Op{K: "connect", C: i, Clean: false, Ack: ack}
		if p.Clients[i].Ver == 5 {
			op.ExpiryS = sim.U32(90000)
		}
		return op
	}
	// 3: a v5 client with Session Expiry Interval 0: its session ends with its connection, crash included
	p.Clients = append(p.Clients, sim.ClientSpec{ID: ids[3], Ver: 5})
	p.Phases = append(p.Phases, sim.Phase{Ops: []sim.Op{conn(0, "never"), conn(1, ""), conn(2, ""),
		{K: "connect", C: 3, Clean: false, ExpiryS: sim.U32(0)}, {K: "subscribe", C: 3, Subs: []mqttc.Sub{{Filter: "eph/#", QoS: 1}}}}})
	subq := byte(1 + rng.IntN(2))
	var sp sim.Phase
	for _, c := range []int{0, 1} {
		v5 := p.Clients[c].Ver == 5
		s := mqttc.Sub{Filter: "d/#", QoS: subq}
		if v5 {
			s.NoLocal, s.RAP = chance(rng, 0.3), chance(rng, 0.3)
		}
		op := sim.Op{K: "subscribe", C: c, Subs: []mqttc.Sub{s}}
		if v5 && chance(rng, 0.5) {
			op.SubID = uint32(1 + rng.IntN(7))
		}
		sp.Ops = append(sp.Ops, op)
		// a subscription that is removed again, and one that stays
		sp.Ops = append(sp.Ops, sim.Op{K: "subscribe", C: c, Subs: []mqttc.Sub{{Filter: fmt.Sprintf("e/%d/+", c), QoS: 1}, {Filter: fmt.Sprintf("keep/%d", c), QoS: byte(rng.IntN(3))}}})
		if chance(rng, 0.8) {
			sp.Ops = append(sp.Ops, sim.Op{K: "unsubscribe", C: c, Filters: []string{fmt.Sprintf("e/%d/+", c)}})
		}
		if v5 && chance(rng, 0.6) {
			// shared subscriptions: one on the very filter of a plain subscription of the same client (two entries
			// that differ in the share name only), one that is removed again
			sp.Ops = append(sp.Ops, sim.Op{K: "subscribe", C: c, Subs: []mqttc.Sub{{Filter: fmt.Sprintf("$share/g/keep/%d", c), QoS: 1}, {Filter: fmt.Sprintf("$share/h/gone/%d", c), QoS: 1}}})
			sp.Ops = append(sp.Ops, sim.Op{K: "unsubscribe", C: c, Filters: []string{fmt.Sprintf("$share/h/gone/%d", c)}})
		}
	}
	if chance(rng, 0.3) {
		// the connections last longer than the session expiry interval before anything else happens: a session's
		// lifetime is counted from the end of its connection (here: the crash), not from its CONNECT
		sp.Advance = sim.Sec(101000)
	}
	p.Phases = append(p.Phases, sp)
	if chance(rng, 0.6) {
		// a phase of its own: client 1 removes (or makes again) a subscription while the same subscription is
		// made through the API, timed to land inside the client's storage round trip: whatever the order, the
		// running broker and the store must agree afterwards (C09.mem_vs_store)
		var rp sim.Phase
		if chance(rng, 0.75) {
			rp.Ops = append(rp.Ops, sim.Op{K: "unsubscribe", C: 1, Filters: []string{"keep/1"}})
		} else {
			rp.Ops = append(rp.Ops, sim.Op{K: "subscribe", C: 1, Subs: []mqttc.Sub{{Filter: "keep/1", QoS: 1}}})
		}
		for a := 0; a < 2; a++ {
			rp.Ops = append(rp.Ops, sim.Op{K: pick(rng, []string{"api_subscribe", "api_subscribe", "api_unsubscribe"}), C: -3 - a, Target: p.Clients[1].ID,
				Subs: []mqttc.Sub{{Filter: "keep/1", QoS: 1}}, Filters: []string{"keep/1"}, Delay: sim.Us(rng.IntN(p.Net.LatMaxUs + 40))})
		}
		p.Phases = append(p.Phases, rp)
	}
	msg := 0
	pubPhase := func() sim.Phase {
		var ph sim.Phase
		for k := 0; k < 1+rng.IntN(4); k++ {
			msg++
			op := sim.Op{K: "publish", C: 2, Topic: "d/x", QoS: byte(1 + rng.IntN(2)), Payload: fmt.Sprintf("gm%03dq", msg)}
			if op.QoS == 2 && chance(rng, 0.4) {
				op.HoldRel = true
				op.PID = uint16(500 + msg)
			}
			if p.Clients[2].Ver == 5 && chance(rng, 0.5) {
				// application properties must survive the store and the restart with the message
				randMsgProps(rng, &op)
				if chance(rng, 0.5) {
					op.MsgExpiry = sim.U32(uint32(50000 + rng.IntN(1000)))
				}
			}
			ph.Ops = append(ph.Ops, op)
		}
		return ph
	}
	p.Phases = append(p.Phases, pubPhase())
	p.Phases = append(p.Phases, sim.Phase{Ops: []sim.Op{{K: "cut", C: 1}}})
	p.Phases = append(p.Phases, pubPhase())
	if chance(rng, 0.5) {
		p.Phases = append(p.Phases, sim.Phase{Ops: []sim.Op{conn(1, "")}}, pubPhase())
	}
	p.Phases = append(p.Phases, sim.Phase{Ops: []sim.Op{{K: "api_custom", C: -2, Custom: "c09_dump"}}})
	p.Params = map[string]string{"prefixes": "12", "redis_lat_us": fmt.Sprint(pick(rng, []int{0, 0, 30, 300}))}
	if tier == "thorough" {
		p.Params["prefixes"] = "all"
	}
	return p
}

type c09dump struct {
	Subs     map[string][]sim.SubView // client id -> subscriptions
	Sessions []string
}

func c09setup(srv *simredis.Server) *sim.Setup {
	return &sim.Setup{
		Options: nil,
		Custom: map[string]func(w *sim.World, op *sim.Op) any{
			"c09_dump": func(w *sim.World, op *sim.Op) any {
				d := &c09dump{Subs: map[string][]sim.SubView{}}
				s := w.Nodes[0].Srv
				s.SubscriptionService().Iterate(func(cid string, sub *gmqtt.Subscription) bool {
					d.Subs[cid] = append(d.Subs[cid], sim.SubView{Client: cid, Share: sub.ShareName, Filter: sub.TopicFilter, QoS: sub.QoS, NoLocal: sub.NoLocal, RAP: sub.RetainAsPublished, RH: sub.RetainHandling, ID: sub.ID})
					return true
				}, subscription.IterationOptions{Type: subscription.TypeAll})
				s.ClientService().IterateSession(func(se *gmqtt.Session) bool { d.Sessions = append(d.Sessions, se.ClientID); return true })
				sort.Strings(d.Sessions)
				return d
			},
		},
	}
}

func runC09(tb TB, p *sim.Plan) *sim.Outcome {
	t := tb.(*testing.T)
	// ---- run A
	storeA := simredis.NewServer(p.Seed)
	fmt.Sscan(p.Params["redis_lat_us"], &storeA.ReplyLatMaxUs)
	simredis.Install(storeA)
	defer simredis.Install(nil)
	a := sim.Run(t, p, c09setup(storeA))
	out := a
	if a.H == nil {
		return a
	}
	if out.Probes == nil {
		out.Probes = map[string]int{}
	}
	var vs []sim.Violation
	vs = append(vs, genericOracle(p, a)...)
	h := a.H
	// the journal up to the last phase end (the end-of-run sequence is not part of the history)
	lastEnd := 0
	for _, r := range h.Recs {
		if r.Kind == "phase" && len(r.Note) > 3 && r.Note[:3] == "end" {
			lastEnd = r.Step
		}
	}
	var J []simredis.Entry
	for _, e := range storeA.Journal {
		if e.Step <= lastEnd {
			J = append(J, e)
		}
	}
	kOf := func(step int) int { // journal entries that precede an event written at this step
		n := 0
		for _, e := range J {
			if e.Step < step {
				n++
			}
		}
		return n
	}
	// facts from run A
	type subFact struct {
		client               int
		sub                  mqttc.Sub
		granted              byte
		id                   uint32
		kAck                 int
		kUnsubInv, kUnsubAck int // -1: never unsubscribed
	}
	var subs []*subFact
	apiTouched := map[string]bool{} // "client id|filter" also changed through the API (order unknown)
	connK := map[int]int{}
	for _, o := range h.Ops {
		switch o.Op.K {
		case "connect":
			if o.Ack != nil && o.Ack.Code == 0 {
				if _, ok := connK[o.Op.C]; !ok {
					connK[o.Op.C] = kOf(o.Resp)
				}
			}
		case "subscribe":
			if o.Ack == nil {
				continue
			}
			for i, s := range o.Op.Subs {
				if i < len(o.Ack.Codes) && o.Ack.Codes[i] < 0x80 {
					id := uint32(0)
					if p.Clients[o.Op.C].Ver == 5 {
						id = o.Op.SubID
					} else {
						s.NoLocal, s.RAP, s.RH = false, false, 0
					}
					subs = append(subs, &subFact{client: o.Op.C, sub: s, granted: o.Ack.Codes[i], id: id, kAck: kOf(o.Resp), kUnsubInv: -1, kUnsubAck: -1})
				}
			}
		case "api_subscribe", "api_unsubscribe":
			for _, s := range o.Op.Subs {
				apiTouched[o.Op.Target+"|"+s.Filter] = true
			}
		case "unsubscribe":
			for _, f := range o.Op.Filters {
				for _, sf := range subs {
					if sf.client == o.Op.C && sf.sub.Filter == f {
						sf.kUnsubInv = kOf(o.Inv)
						if o.Ack != nil {
							sf.kUnsubAck = kOf(o.Resp)
						}
					}
				}
			}
		}
	}
	type pubFact struct {
		payload string
		qos     byte
		pid     uint16
		kAck    int // publisher acknowledged (PUBACK / PUBREC) — -1 if not
		held    bool
		op      *sim.Op
	}
	var pubs []*pubFact
	for _, o := range h.Ops {
		if o.Op.K == "publish" && o.Op.C == 2 && o.Inv >= 0 {
			pf := &pubFact{payload: o.Op.Payload, qos: o.Op.QoS, pid: o.PID, kAck: -1, held: o.Op.HoldRel, op: o.Op}
			if o.Op.QoS == 1 && o.Ack != nil {
				pf.kAck = kOf(o.Resp)
			}
			if o.Op.QoS == 2 && o.Rec != nil && o.Rec.Code < 0x80 {
				// the PUBREC's step: find the rx record
				for _, r := range h.Recs {
					if r.Kind == "rx" && r.Pkt == o.Rec {
						pf.kAck = kOf(r.Step)
					}
				}
			}
			pubs = append(pubs, pf)
		}
	}
	// when did S2 (client 1) last see each payload, and what did the never-acking S1 (client 0) see
	gotA := map[int]map[string]bool{0: {}, 1: {}}
	for _, r := range h.Recs {
		if r.Kind == "rx" && (r.C == 0 || r.C == 1) && r.Pkt.Type == mqttc.PUBLISH {
			gotA[r.C][string(r.Pkt.Payload)] = true
		}
	}
	// C09.mem_vs_store: at the quiescent end of run A the running broker's subscription index and the store agree
	{
		var dumpA *c09dump
		for _, o := range h.Ops {
			if o.Op.K == "api_custom" && o.Op.Custom == "c09_dump" && o.Ret != nil {
				dumpA, _ = o.Ret.(*sim.APIResult).Val.(*c09dump)
			}
		}
		if dumpA != nil {
			snapA := simredis.FromJournal(J, p.Seed).Snapshot()
			out.Probes["mem_vs_store_compared"]++
			for _, c := range p.Clients {
				mem := map[string]bool{}
				for _, sv := range dumpA.Subs[c.ID] {
					f := sv.Filter
					if sv.Share != "" {
						f = "$share/" + sv.Share + "/" + f
					}
					mem[f] = true
				}
				st := map[string]bool{}
				if hsh, ok := snapA["sub:"+c.ID].(map[string]string); ok {
					for f := range hsh {
						st[f] = true
					}
				}
				for f := range mem {
					if !st[f] {
						vs = append(vs, viol("C09", "mem_vs_store", "sub-only-in-memory", "end of the history (quiescent): the running broker holds subscription %q of client %q but the store does not: a restart would lose it", f, c.ID))
					}
				}
				for f := range st {
					if !mem[f] {
						vs = append(vs, viol("C09", "mem_vs_store", "sub-only-in-store", "end of the history (quiescent): the store holds subscription %q of client %q but the running broker does not: a restart would resurrect it", f, c.ID))
					}
				}
			}
		}
	}
	// crash points
	var ks []int
	if p.Params["k"] != "" {
		var k int
		fmt.Sscan(p.Params["k"], &k)
		if k <= len(J) {
			ks = []int{k}
		}
	}
	if len(ks) == 0 {
		if p.Params["prefixes"] == "all" || len(J) <= 14 {
			for k := 0; k <= len(J); k++ {
				ks = append(ks, k)
			}
		} else {
			// always the prefixes adjacent to acknowledgements, plus a seeded sample
			seen := map[int]bool{}
			addK := func(k int) {
				if k >= 0 && k <= len(J) && !seen[k] {
					seen[k] = true
					ks = append(ks, k)
				}
			}
			addK(len(J))
			rng := rand.New(rand.NewPCG(p.Seed, 0x633039))
			var cand []int
			for _, sf := range subs {
				cand = append(cand, sf.kAck, sf.kAck-1, sf.kUnsubAck, sf.kUnsubAck-1)
			}
			for _, pf := range pubs {
				cand = append(cand, pf.kAck, pf.kAck-1, pf.kAck+1)
			}
			rng.Shuffle(len(cand), func(i, j int) { cand[i], cand[j] = cand[j], cand[i] })
			for _, k := range cand {
				if len(ks) < 9 {
					addK(k)
				}
			}
			for len(ks) < 12 && len(ks) <= len(J) {
				addK(rng.IntN(len(J) + 1))
			}
			sort.Ints(ks)
		}
	}
	out.Probes["journal_len"] = len(J)
	// ---- run B per crash point
	for _, k := range ks {
		out.Probes["crash_points"]++
		storeB := simredis.FromJournal(J[:k], p.Seed)
		snapB := storeB.Snapshot()
		simredis.Install(storeB)
		pb := &sim.Plan{Prop: "C09", Seed: p.Seed, Broker: p.Broker, Net: sim.NetCfg{Seed: p.Net.Seed, LatMaxUs: 5}, Sched: sim.SchedCfg{Seed: p.Sched.Seed + uint64(k), SwitchProb: 0.1}}
		pb.Clients = append(append([]sim.ClientSpec{}, p.Clients...), sim.ClientSpec{ID: "probe-zz", Ver: 4})
		probe := len(pb.Clients) - 1
		var c0 sim.Phase
		for i := 0; i < 3; i++ {
			op := sim.Op{K: "connect", C: i, Clean: false}
			if p.Clients[i].Ver == 5 {
				op.ExpiryS = sim.U32(90000)
			}
			c0.Ops = append(c0.Ops, op)
		}
		c0.Ops = append(c0.Ops, sim.Op{K: "connect", C: 3, Clean: false, ExpiryS: sim.U32(0)})
		c0.Ops = append(c0.Ops, sim.Op{K: "connect", C: probe, Clean: true})
		c0.TimeoutS = 20
		// the new process starts when the old one died: the clock of run B continues where run A was at the crash
		// point (every bubble starts at the same instant, so the time is put back by a jump before the broker starts)
		var elapsed time.Duration
		if k > 0 {
			for _, r := range h.Recs {
				if r.Step > J[k-1].Step {
					break
				}
				elapsed = r.T
			}
		}
		pb.Params = map[string]string{"nostart": "1"}
		for left := elapsed + time.Second; left > 0; left -= 20 * time.Hour {
			// (in steps below the simulator's idle horizon: nothing else is pending while the broker is down)
			step := min(left, 20*time.Hour)
			pb.Phases = append(pb.Phases, sim.Phase{Ops: []sim.Op{{K: "sleep", C: -9, D: sim.Us(1)}}, Advance: sim.Us(int(step / time.Microsecond))})
		}
		pb.Phases = append(pb.Phases, sim.Phase{Ops: []sim.Op{{K: "api_start", C: -9}}})
		pb.Phases = append(pb.Phases, c0)
		// the publisher retransmits its QoS 2 publishes whose PUBREL it withheld
		var rp sim.Phase
		for _, pf := range pubs {
			// every other crash point the publisher behaves like a client that had seen the PUBREC: it goes on
			// with PUBREL (phase below) without sending the PUBLISH again
			if pf.held && pf.kAck >= 0 && pf.kAck <= k && k%2 == 0 {
				rp.Ops = append(rp.Ops, sim.Op{K: "publish", C: 2, Topic: "d/x", QoS: 2, PID: pf.pid, Dup: true, Payload: pf.payload, HoldRel: true})
			}
		}
		rp.Ops = append(rp.Ops, sim.Op{K: "api_custom", C: -1, Custom: "c09_dump"}, sim.Op{K: "publish", C: probe, Topic: "d/x", QoS: 1, Payload: "probe"})
		rp.TimeoutS = 20
		pb.Phases = append(pb.Phases, rp)
		// the publisher completes the withheld QoS 2 flows and then uses the same packet identifiers for new messages
		var cp sim.Phase
		for _, pf := range pubs {
			if pf.held && pf.kAck >= 0 && pf.kAck <= k {
				cp.Ops = append(cp.Ops, sim.Op{K: "pubrel", C: 2, PID: pf.pid}, sim.Op{K: "publish", C: 2, Topic: "d/x", QoS: 2, PID: pf.pid, Payload: "re-" + pf.payload})
			}
		}
		if len(cp.Ops) > 0 {
			cp.TimeoutS = 20
			pb.Phases = append(pb.Phases, cp)
		}
		b := sim.Run(t, pb, c09setup(storeB))
		out.Steps += b.Steps
		out.Switches += b.Switches
		where := fmt.Sprintf("crash after %d of %d storage commands", k, len(J))
		if k > 0 {
			where += fmt.Sprintf(" (last: %s)", J[k-1])
		}
		if b.H == nil {
			continue
		}
		for _, pn := range b.Panics {
			vs = append(vs, viol("C09", "startup", "panic:"+normDigits(firstLine(pn)), "%s: restarted broker panicked: %s", where, pn))
		}
		if b.LoopErr != nil {
			vs = append(vs, viol("C09", "startup", "start-failed", "%s: the restarted broker did not come up / did not finish: %v", where, b.LoopErr))
			continue
		}
		// C09.sessions
		for i := 0; i < 3; i++ {
			var ack *mqttc.Packet
			for _, o := range b.H.Ops {
				if o.Op.K == "connect" && o.Op.C == i {
					ack = o.Ack
				}
			}
			if ack == nil || ack.Code != 0 {
				vs = append(vs, viol("C09", "startup", "connect-refused", "%s: client %q cannot connect to the restarted broker (%v)", where, p.Clients[i].ID, ack))
				continue
			}
			kc, had := connK[i]
			if had && kc <= k && !ack.SessionPresent {
				vs = append(vs, viol("C09", "sessions", "session-lost", "%s: session of client %q was acknowledged after %d commands but is gone (Session Present 0)", where, p.Clients[i].ID, kc))
			}
		}
		// C09.ephemeral: a session whose expiry interval was 0 ended when the broker (and with it the
		// connection) died: it must not be resumed after the restart
		for _, o := range b.H.Ops {
			if o.Op.K == "connect" && o.Op.C == 3 && o.Ack != nil && o.Ack.Code == 0 {
				out.Probes["ephemeral_checked"]++
				if o.Ack.SessionPresent {
					vs = append(vs, viol("C09", "ephemeral", "resumed-after-restart", "%s: client %q had connected with Session Expiry Interval 0; after the restart its CONNECT (Clean Start 0) is answered with Session Present 1", where, p.Clients[3].ID))
				}
			}
		}
		// C09.subs
		var dump *c09dump
		for _, o := range b.H.Ops {
			if o.Op.K == "api_custom" && o.Ret != nil {
				dump, _ = o.Ret.(*sim.APIResult).Val.(*c09dump)
			}
		}
		if dump != nil {
			known := map[string]bool{}
			for _, c := range pb.Clients {
				known[c.ID] = true
			}
			for cid := range dump.Subs {
				if !known[cid] {
					vs = append(vs, viol("C09", "subs", "foreign-client", "%s: the restarted broker holds subscriptions %v under client id %q, which no client ever used", where, dump.Subs[cid], cid))
				}
			}
			for _, sf := range subs {
				cid := p.Clients[sf.client].ID
				if sf.client == 3 {
					// the session with expiry interval 0: once the client has come back (not resumed) nothing of it is left
					for _, sv := range dump.Subs[cid] {
						if sv.Filter == sf.sub.Filter {
							vs = append(vs, viol("C09", "ephemeral", "subscription-survives", "%s: subscription %q of client %q, whose session had expiry interval 0, is still in place after the restart and its reconnect", where, sf.sub.Filter, cid))
						}
					}
					continue
				}
				var found *sim.SubView
				for i := range dump.Subs[cid] {
					sv := &dump.Subs[cid][i]
					full := sv.Filter
					if sv.Share != "" {
						full = "$share/" + sv.Share + "/" + sv.Filter
					}
					if full == sf.sub.Filter {
						found = sv
					}
				}
				mustHave := sf.kAck <= k && (sf.kUnsubInv < 0 || sf.kUnsubInv > k) && connK[sf.client] <= k && !apiTouched[cid+"|"+sf.sub.Filter]
				mustNot := sf.kUnsubAck >= 0 && sf.kUnsubAck <= k && !apiTouched[cid+"|"+sf.sub.Filter]
				if mustHave && found == nil {
					vs = append(vs, viol("C09", "subs", "sub-lost", "%s: subscription %q of client %q (SUBACK after %d commands) is gone", where, sf.sub.Filter, cid, sf.kAck))
				}
				if mustNot && found != nil {
					vs = append(vs, viol("C09", "subs", "unsub-undone", "%s: subscription %q of client %q is back although its UNSUBACK was sent after %d commands", where, sf.sub.Filter, cid, sf.kUnsubAck))
				}
				if mustHave && found != nil && (found.QoS != sf.granted || found.NoLocal != sf.sub.NoLocal || found.RAP != sf.sub.RAP || found.RH != sf.sub.RH || found.ID != sf.id) {
					vs = append(vs, viol("C09", "subs", "sub-options", "%s: subscription %q of client %q came back as %+v, acknowledged with QoS %d options %+v id %d", where, sf.sub.Filter, cid, *found, sf.granted, sf.sub, sf.id))
				}
			}
		}
		// C09.redeliver: the never-acking subscriber gets every message whose publisher was acknowledged
		gotB := map[int]map[string]int{0: {}, 1: {}}
		pktB := map[int]map[string]*mqttc.Packet{0: {}, 1: {}}
		for _, r := range b.H.Recs {
			if r.Kind == "rx" && (r.C == 0 || r.C == 1) && r.Pkt.Type == mqttc.PUBLISH {
				gotB[r.C][string(r.Pkt.Payload)]++
				pktB[r.C][string(r.Pkt.Payload)] = r.Pkt
			}
		}
		// C09.content: what comes out of the store after the restart is the message that went in
		for c := 0; c <= 1; c++ {
			for _, pf := range pubs {
				pk := pktB[c][pf.payload]
				if pk == nil {
					continue
				}
				if pk.Topic != pf.op.Topic {
					vs = append(vs, viol("C09", "content", "topic", "%s: message %q redelivered to %q under topic %q, published to %q", where, pf.payload, p.Clients[c].ID, pk.Topic, pf.op.Topic))
				}
				if p.Clients[c].Ver == 5 {
					if d := msgPropsMismatch(pf.op, p.Clients[2].Ver == 5, pk); d != "" {
						vs = append(vs, viol("C09", "content", "properties", "%s: message %q delivered to %q after the restart with %s", where, pf.payload, p.Clients[c].ID, d))
					}
					if pf.op.MsgExpiry != nil && (pk.Props == nil || pk.Props.MessageExpiry == nil || *pk.Props.MessageExpiry > *pf.op.MsgExpiry) {
						vs = append(vs, viol("C09", "content", "message-expiry", "%s: message %q (expiry interval %d) delivered to %q after the restart with %s", where, pf.payload, *pf.op.MsgExpiry, p.Clients[c].ID, pk))
					}
				}
			}
		}
		var s1 *subFact
		for _, sf := range subs {
			if sf.client == 0 && sf.sub.Filter == "d/#" {
				s1 = sf
			}
		}
		s1ok := false
		for _, o := range b.H.Ops {
			if o.Op.K == "connect" && o.Op.C == 0 && o.Ack != nil && o.Ack.Code == 0 && o.Ack.SessionPresent {
				s1ok = true
			}
		}
		if s1 != nil && s1ok {
			for _, pf := range pubs {
				if pf.kAck >= 0 && pf.kAck <= k && s1.kAck < pf.kAck && !(p.Clients[0].ID == p.Clients[2].ID) {
					if gotB[0][pf.payload] == 0 {
						vs = append(vs, viol("C09", "redeliver", "message-lost", "%s: QoS %d message %q (publisher acknowledged after %d commands) was never acknowledged by subscriber %q and is not redelivered after the restart", where, pf.qos, pf.payload, pf.kAck, p.Clients[0].ID))
					}
				}
			}
		}
		// C09.qos2_dup: a retransmitted QoS 2 PUBLISH whose id was awaiting PUBREL is not forwarded again.
		// Subscriber S2 acknowledged promptly in run A: whatever it saw there is complete; the never-acking S1
		// legitimately gets its first copy again. A duplicate forward shows as a copy at S2 in run B for a
		// message S2 had already received in run A, or as two copies at either in run B.
		pubOK := false
		for _, o := range b.H.Ops {
			if o.Op.K == "connect" && o.Op.C == 2 && o.Ack != nil && o.Ack.Code == 0 && o.Ack.SessionPresent {
				pubOK = true
			}
		}
		if pubOK {
			for _, pf := range pubs {
				if !(pf.held && pf.kAck >= 0 && pf.kAck <= k) {
					continue
				}
				// how many copies does each subscriber's stored queue hold? (redelivery of those is legitimate)
				for _, c := range []int{0, 1} {
					want := 0
					if l, ok := snapB["queue:"+p.Clients[c].ID].([]string); ok {
						for _, e := range l {
							if strings.Contains(e, fmt.Sprintf("%x", pf.payload)) {
								want++
							}
						}
					}
					if gotB[c][pf.payload] > want {
						vs = append(vs, viol("C09", "qos2_dup", "qos2-forwarded-again", "%s: QoS 2 PUBLISH %q (id %d, PUBREC sent after %d commands, PUBREL outstanding) was retransmitted after the restart and forwarded again: subscriber %q received %d copies, its stored queue held %d", where, pf.payload, pf.pid, pf.kAck, p.Clients[c].ID, gotB[c][pf.payload], want))
					}
				}
			}
		}
		// C09.id_release: once PUBREL / PUBCOMP completed a QoS 2 flow that had survived the crash, its packet
		// identifier is free again: a new QoS 2 message with that identifier is a new message
		if pubOK {
			s2ok := false
			for _, o := range b.H.Ops {
				if o.Op.K == "connect" && o.Op.C == 1 && o.Ack != nil && o.Ack.Code == 0 && o.Ack.SessionPresent {
					s2ok = true
				}
			}
			var s2 *subFact
			for _, sf := range subs {
				if sf.client == 1 && sf.sub.Filter == "d/#" && sf.kAck <= k {
					s2 = sf
				}
			}
			for _, o := range b.H.Ops {
				if o.Op.K != "publish" || !strings.HasPrefix(o.Op.Payload, "re-") || o.Result != "ok" {
					continue
				}
				// the PUBREL before it must have been answered
				relOK := false
				for _, o2 := range b.H.Ops {
					if o2.Op.K == "pubrel" && o2.Op.PID == o.Op.PID && o2.Result == "ok" {
						relOK = true
					}
				}
				if !relOK || !s2ok || s2 == nil || p.Clients[1].ID == p.Clients[2].ID {
					continue
				}
				out.Probes["id_reuse_checked"]++
				if gotB[1][o.Op.Payload] == 0 {
					vs = append(vs, viol("C09", "id_release", "id-stuck", "%s: after the restart the publisher completed its QoS 2 flow %d (PUBREL answered by PUBCOMP) and sent a new QoS 2 message %q with the same packet identifier; it was acknowledged but never forwarded to subscriber %q (treated as a duplicate of the old message)", where, o.Op.PID, o.Op.Payload, p.Clients[1].ID))
				}
			}
		}
		if len(vs) > 0 && p.Params["k"] == "" {
			// remember the first failing crash point for the replay file
			if p.Params == nil {
				p.Params = map[string]string{}
			}
			p.Params["k_first"] = fmt.Sprint(k)
			break
		}
	}
	// C09.replay_preserves: a restart on the full journal, the never-acking subscriber resumes with a small
	// Receive Maximum (its in-flight messages are replayed in several batches) and acknowledges nothing:
	// the stored queue must hold the same messages in the same order afterwards
	if len(vs) == 0 && p.Clients[0].Ver == 5 && p.Params["k"] == "" {
		storeC := simredis.FromJournal(J, p.Seed)
		before := storeC.Snapshot()
		simredis.Install(storeC)
		pc := &sim.Plan{Prop: "C09", Seed: p.Seed, Broker: p.Broker, Net: sim.NetCfg{Seed: p.Net.Seed, LatMaxUs: 5}, Sched: sim.SchedCfg{Seed: p.Sched.Seed + 7777, SwitchProb: 0.1}}
		pc.Clients = append([]sim.ClientSpec{}, p.Clients...)
		rm := uint16(1 + p.Seed%3)
		pc.Phases = append(pc.Phases, sim.Phase{TimeoutS: 20, Ops: []sim.Op{{K: "connect", C: 0, Clean: false, Ack: "never", ExpiryS: sim.U32(90000), RecvMax: sim.U16(rm)}}})
		pc.Phases = append(pc.Phases, sim.Phase{Ops: []sim.Op{{K: "sleep", C: -1, D: sim.Sec(1)}}})
		c := sim.Run(t, pc, c09setup(storeC))
		out.Steps += c.Steps
		if c.H != nil && c.LoopErr == nil {
			after := storeC.Snapshot()
			seq := func(snap map[string]any) []string {
				var out []string
				l, _ := snap["queue:"+p.Clients[0].ID].([]string)
				for _, e := range l {
					for _, pf := range pubs {
						if strings.Contains(e, fmt.Sprintf("%x", pf.payload)) {
							out = append(out, pf.payload)
						}
					}
				}
				return out
			}
			b4, af := seq(before), seq(after)
			out.Probes["replay_preserves_checked"]++
			if len(b4) > int(rm) {
				out.Probes["replay_in_batches"]++
			}
			if fmt.Sprint(b4) != fmt.Sprint(af) {
				vs = append(vs, viol("C09", "replay_preserves", "queue-rewritten", "restart on the full journal, subscriber %q resumes with Receive Maximum %d and acknowledges nothing: its stored queue held %v before and holds %v after the in-flight replay", p.Clients[0].ID, rm, b4, af))
			}
		}
	}
	out.Viol = vs
	return out
}
