package checks

import (
	"fmt"
	"math/rand/v2"
	"sort"
	"strings"
	"time"

	"verifsim/mqttc"
	"verifsim/sim"
	"verifsim/simfed"
)

// C16: the federation event stream is reliable (ordered, at-least-once on the wire, applied once) and
// the peer's view of a node's subscriptions converges to the node's actual subscription set.
//
// 2-3 real brokers with the real federation plugin; simulated serf and RPC transport (simfed).
// Scenarios: "cuts" (the stream is cut at message boundaries in either direction, during the
// handshake, between send and acknowledgement: the peer session lasts), "failjoin" (a node is
// reported failed to a peer and joins again: session lost, full resynchronisation), "kill" (a node's
// process dies and a new one with the same name starts).

func init() {
	register(&Check{ID: "C16", Gen: genC16, Oracle: oracleC16, Setup: fedSetup,
		Nontrivial: func(p *sim.Plan, out *sim.Outcome) bool {
			return out.Probes["fed_msgs_delivered"] >= 2
		}})
}

type fedLayout struct {
	nn                 int
	sub, pub, chA, chB []int // client indices per node
}

func fedClients(p *sim.Plan, nn int, rng *rand.Rand) fedLayout {
	l := fedLayout{nn: nn}
	add := func(name string, ver byte) int {
		p.Clients = append(p.Clients, sim.ClientSpec{ID: name, Ver: ver})
		return len(p.Clients) - 1
	}
	for n := 0; n < nn; n++ {
		l.sub = append(l.sub, add(fmt.Sprintf("sub%d", n), pick(rng, []byte{4, 5})))
		l.pub = append(l.pub, add(fmt.Sprintf("pub%d", n), pick(rng, []byte{4, 5})))
		l.chA = append(l.chA, add(fmt.Sprintf("cha%d", n), pick(rng, []byte{4, 5})))
		l.chB = append(l.chB, add(fmt.Sprintf("chb%d", n), pick(rng, []byte{4, 5})))
	}
	return l
}

var c16filters = []string{"t/0", "t/1", "t/#", "t/+", "$share/g/t/0", "$share/g/t/1", "u/0"}

func genC16(rng *rand.Rand, tier string) *sim.Plan {
	p := NewPlan("C16", rng.Uint64(), rng)
	nn := 2 + rng.IntN(2)
	p.Broker.Nodes = nn
	p.Sched.MaxSteps = 1500000
	scen := pick(rng, []string{"cuts", "cuts", "failjoin", "failjoin", "kill", "calm", "calm", "ackloss", "warmcuts"})
	p.Params = map[string]string{
		"scenario":          scen,
		"fed_cutprob":       fmt.Sprint(pick(rng, []float64{0.01, 0.03, 0.1, 0.25})),
		"fed_maxcuts":       fmt.Sprint(1 + rng.IntN(8)),
		"fed_lat_max_us":    fmt.Sprint(pick(rng, []int{50, 2000, 50000})),
		"fed_notice_max_us": fmt.Sprint(pick(rng, []int{1000, 300000, 2000000})),
		"fed_gossip_max_us": fmt.Sprint(pick(rng, []int{5000, 800000})),
	}
	if scen == "calm" || scen == "ackloss" {
		p.Params["fed_cutprob"] = "0" // ackloss: only the injected cut, so that more than 100 applied events stay un-acknowledged
	}
	l := fedClients(p, nn, rng)
	api := -1
	nextAPI := func() int { api--; return api }
	// phase 0: connect, message subscribers subscribe
	var ph sim.Phase
	for n := 0; n < nn; n++ {
		for _, c := range []int{l.sub[n], l.pub[n], l.chA[n], l.chB[n]} {
			ph.Ops = append(ph.Ops, sim.Op{K: "connect", C: c, Node: n, Clean: true})
		}
		ph.Ops = append(ph.Ops, sim.Op{K: "subscribe", C: l.sub[n], Subs: []mqttc.Sub{{Filter: "m/#", QoS: 1}}})
	}
	// the churn clients hold a few subscriptions already while the cluster forms; some of them go away in the very
	// instant a Hello reply reaches their node, i.e. while that node snapshots and queues its full state for the peer
	form := sim.Phase{Ops: []sim.Op{{K: "sleep", C: -1, D: sim.Sec(4)}}}
	if chance(rng, 0.6) {
		for n := 0; n < nn; n++ {
			for _, c := range []int{l.chA[n], l.chB[n]} {
				for _, f := range c16filters[:4] {
					if chance(rng, 0.5) {
						ph.Ops = append(ph.Ops, sim.Op{K: "subscribe", C: c, Subs: []mqttc.Sub{{Filter: f, QoS: 1}}})
						if chance(rng, 0.6) {
							form.Ops = append(form.Ops, sim.Op{K: "unsubscribe", C: c, Filters: []string{f}, Trigger: "hello>" + fedNode(n), Instant: true, NoWait: true, D: sim.Sec(3)})
						}
					}
				}
			}
		}
	}
	p.Phases = append(p.Phases, ph)
	// phase 1: let the cluster form and the initial state be exchanged
	p.Phases = append(p.Phases, form)
	msg := 0
	pubs := func(ph *sim.Phase, n int, k int) {
		pipeline := chance(rng, 0.5)
		for i := 0; i < k; i++ {
			msg++
			ph.Ops = append(ph.Ops, sim.Op{K: "publish", C: l.pub[n], Topic: fmt.Sprintf("m/%d", n), QoS: 1, Payload: fmt.Sprintf("p%d", msg), NoWait: pipeline})
		}
	}
	churn := func(ph *sim.Phase, n int) {
		if chance(rng, 0.25) {
			// the last holder of a topic goes (session end or UNSUBSCRIBE) while the other churn client of the
			// node subscribes that very topic: the events must be queued in the order the reference count changed
			f := pick(rng, c16filters)
			a, b := l.chA[n], l.chB[n]
			ph.Ops = append(ph.Ops, sim.Op{K: "unsubscribe", C: b, Filters: []string{f}}, sim.Op{K: "subscribe", C: a, Subs: []mqttc.Sub{{Filter: f, QoS: 1}}})
			if chance(rng, 0.4) {
				// the other client's SUBSCRIBE leaves in the very instant the last holder's DISCONNECT does: both reach
				// the node together, the session-end hook and the subscribe hook interleave as the scheduler likes
				ph.Ops = append(ph.Ops, sim.Op{K: "disconnect", C: a, Instant: true}, sim.Op{K: "connect", C: a, Node: n, Clean: true})
				ph.Ops = append(ph.Ops, sim.Op{K: "subscribe", C: b, Subs: []mqttc.Sub{{Filter: f, QoS: 1}}, Trigger: fmt.Sprintf("disconnect>%d", a), Instant: true, D: sim.Sec(3)})
				return
			}
			if chance(rng, 0.6) {
				ph.Ops = append(ph.Ops, sim.Op{K: "disconnect", C: a}, sim.Op{K: "connect", C: a, Node: n, Clean: true})
			} else {
				ph.Ops = append(ph.Ops, sim.Op{K: "unsubscribe", C: a, Filters: []string{f}})
			}
			ph.Ops = append(ph.Ops, sim.Op{K: "subscribe", C: b, Subs: []mqttc.Sub{{Filter: f, QoS: 1}}, Delay: sim.Us(rng.IntN(2*p.Net.LatMaxUs + 20))})
			return
		}
		for _, c := range []int{l.chA[n], l.chB[n]} {
			if chance(rng, 0.15) {
				// the whole session ends (clean session): its subscriptions go at once, while the other churn
				// client of the node may be subscribing the same topics
				ph.Ops = append(ph.Ops, sim.Op{K: "disconnect", C: c}, sim.Op{K: "connect", C: c, Node: n, Clean: true})
			}
			for i := 0; i < rng.IntN(4); i++ {
				f := pick(rng, c16filters)
				if chance(rng, 0.45) {
					ph.Ops = append(ph.Ops, sim.Op{K: "unsubscribe", C: c, Filters: []string{f}})
				} else {
					ph.Ops = append(ph.Ops, sim.Op{K: "subscribe", C: c, Subs: []mqttc.Sub{{Filter: f, QoS: byte(rng.IntN(2))}}})
				}
			}
		}
	}
	if scen == "warmcuts" {
		// the receivers' duplicate caches (100 entries) are filled with events that were applied and acknowledged in
		// peace; only then do the streams start to break — among other places between "event applied" and
		// "acknowledgement handed to the transport", which makes the sender repeat exactly that event
		p.Params["fed_cutprob"] = fmt.Sprint(pick(rng, []float64{0.1, 0.25}))
		p.Params["fed_maxcuts"] = fmt.Sprint(6 + rng.IntN(10))
		var warm sim.Phase
		for n := 0; n < nn; n++ {
			for i := 0; i < 100+rng.IntN(25); i++ {
				msg++
				warm.Ops = append(warm.Ops, sim.Op{K: "publish", C: l.pub[n], Topic: fmt.Sprintf("m/%d", n), QoS: 1, Payload: fmt.Sprintf("p%d", msg), NoWait: true})
			}
		}
		p.Phases = append(p.Phases, warm, sim.Phase{Ops: []sim.Op{{K: "sleep", C: nextAPI(), D: sim.Sec(2)}}})
	}
	p.Phases = append(p.Phases, sim.Phase{Ops: []sim.Op{{K: "api_custom", C: nextAPI(), Custom: "fed_faults", Mode: "on"}}})
	rounds := 1 + rng.IntN(3)
	if scen == "warmcuts" {
		rounds = 3
	}
	if tier == "thorough" {
		rounds = 2 + rng.IntN(4)
	}
	for r := 0; r < rounds; r++ {
		var ph sim.Phase
		for n := 0; n < nn; n++ {
			if chance(rng, 0.8) {
				k := 1 + rng.IntN(6)
				if scen == "warmcuts" {
					k = 8 + rng.IntN(10)
				}
				pubs(&ph, n, k)
			}
			churn(&ph, n)
		}
		a, b := rng.IntN(nn), rng.IntN(nn)
		if a == b {
			b = (a + 1) % nn
		}
		if scen != "calm" && chance(rng, 0.5) {
			ph.Ops = append(ph.Ops, sim.Op{K: "api_custom", C: nextAPI(), Custom: "fed_cut", Target: fedNode(a) + ">" + fedNode(b), Delay: sim.Us(rng.IntN(3000))})
		}
		p.Phases = append(p.Phases, ph)
		switch scen {
		case "ackloss":
			if r == 0 {
				// more events than the receiver's duplicate cache holds (100) are delivered and applied while
				// their acknowledgements hang in the network; then the stream breaks and the acknowledgements are lost
				held := 104 + rng.IntN(30)
				if chance(rng, 0.5) {
					// variant: the duplicate cache is already full of events that were applied AND acknowledged when a
					// few more are applied whose acknowledgements get lost
					var warm sim.Phase
					for i := 0; i < 100+rng.IntN(25); i++ {
						msg++
						warm.Ops = append(warm.Ops, sim.Op{K: "publish", C: l.pub[a], Topic: fmt.Sprintf("m/%d", a), QoS: 1, Payload: fmt.Sprintf("p%d", msg), NoWait: true})
					}
					p.Phases = append(p.Phases, warm, sim.Phase{Ops: []sim.Op{{K: "sleep", C: nextAPI(), D: sim.Sec(1)}}})
					held = 2 + rng.IntN(30)
				}
				p.Phases = append(p.Phases, sim.Phase{Ops: []sim.Op{{K: "api_custom", C: nextAPI(), Custom: "fed_hold_acks", Mode: "on", Target: fedNode(a) + ">" + fedNode(b)}}})
				var burst sim.Phase
				for i := 0; i < held; i++ {
					msg++
					burst.Ops = append(burst.Ops, sim.Op{K: "publish", C: l.pub[a], Topic: fmt.Sprintf("m/%d", a), QoS: 1, Payload: fmt.Sprintf("p%d", msg), NoWait: true})
				}
				p.Phases = append(p.Phases, burst)
				p.Phases = append(p.Phases, sim.Phase{Ops: []sim.Op{{K: "api_custom", C: nextAPI(), Custom: "fed_cut", Target: fedNode(a) + ">" + fedNode(b)}}})
				p.Phases = append(p.Phases, sim.Phase{Ops: []sim.Op{{K: "api_custom", C: nextAPI(), Custom: "fed_hold_acks", Mode: "off", Target: fedNode(a) + ">" + fedNode(b)}}})
			}
		case "failjoin":
			if chance(rng, 0.7) {
				// b is reported failed to a (possibly also the other way round), work goes on, then it joins again
				var f sim.Phase
				f.Ops = append(f.Ops, sim.Op{K: "api_custom", C: nextAPI(), Custom: "fed_fail", Target: fedNode(a) + ">" + fedNode(b)})
				both := chance(rng, 0.5)
				if both {
					f.Ops = append(f.Ops, sim.Op{K: "api_custom", C: nextAPI(), Custom: "fed_fail", Target: fedNode(b) + ">" + fedNode(a)})
				}
				if chance(rng, 0.6) {
					churn(&f, b)
					churn(&f, a)
				}
				p.Phases = append(p.Phases, f)
				if r == rounds-1 && !both && chance(rng, 0.3) {
					// the failure is never revoked: a must forget everything it knew about b
					break
				}
				var j sim.Phase
				j.Ops = append(j.Ops, sim.Op{K: "api_custom", C: nextAPI(), Custom: "fed_join", Target: fedNode(a) + ">" + fedNode(b)})
				if both {
					j.Ops = append(j.Ops, sim.Op{K: "api_custom", C: nextAPI(), Custom: "fed_join", Target: fedNode(b) + ">" + fedNode(a)})
				}
				if chance(rng, 0.5) {
					churn(&j, b)
				}
				if chance(rng, 0.5) {
					// ... and exactly when the Hello reply reaches the node that is about to queue its full state
					for _, x := range []int{a, b} {
						for _, c := range []int{l.chA[x], l.chB[x]} {
							for _, f := range c16filters[:4] {
								if chance(rng, 0.4) {
									j.Ops = append(j.Ops, sim.Op{K: "unsubscribe", C: c, Filters: []string{f}, Trigger: "hello>" + fedNode(x), Instant: true, NoWait: true, D: sim.Sec(4)})
								}
							}
						}
					}
				}
				if chance(rng, 0.6) {
					// subscriptions of the node that resynchronises go away while it queues its full state
					for _, c := range []int{l.chA[b], l.chB[b], l.chA[a], l.chB[a]} {
						for _, f := range c16filters[:4] {
							if chance(rng, 0.5) {
								j.Ops = append(j.Ops, sim.Op{K: "unsubscribe", C: c, Filters: []string{f}, Delay: sim.Us(rng.IntN(1200000))})
							}
						}
					}
				}
				p.Phases = append(p.Phases, j)
			}
		case "kill":
			if r == 0 || chance(rng, 0.3) {
				// node b dies; its clients lose their connections; a new process starts under the same name
				var k sim.Phase
				for _, c := range []int{l.sub[b], l.pub[b], l.chA[b], l.chB[b]} {
					k.Ops = append(k.Ops, sim.Op{K: "cut", C: c})
				}
				p.Phases = append(p.Phases, k)
				p.Phases = append(p.Phases, sim.Phase{Ops: []sim.Op{{K: "api_custom", C: nextAPI(), Custom: "fed_kill", Node: b}}})
				var s sim.Phase
				detected := chance(rng, 0.6)
				if detected {
					for o := 0; o < nn; o++ {
						if o != b {
							s.Ops = append(s.Ops, sim.Op{K: "api_custom", C: nextAPI(), Custom: "fed_fail", Target: fedNode(o) + ">" + fedNode(b)})
						}
					}
				}
				if chance(rng, 0.5) {
					churn(&s, a)
				}
				s.Ops = append(s.Ops, sim.Op{K: "sleep", C: nextAPI(), D: sim.Ms(rng.IntN(3000))})
				p.Phases = append(p.Phases, s)
				p.Phases = append(p.Phases, sim.Phase{Ops: []sim.Op{{K: "api_start", C: nextAPI(), Node: b}}})
				var rc sim.Phase
				for _, c := range []int{l.sub[b], l.pub[b], l.chA[b], l.chB[b]} {
					rc.Ops = append(rc.Ops, sim.Op{K: "connect", C: c, Node: b, Clean: true})
				}
				rc.Ops = append(rc.Ops, sim.Op{K: "subscribe", C: l.sub[b], Subs: []mqttc.Sub{{Filter: "m/#", QoS: 1}}})
				churn(&rc, b)
				p.Phases = append(p.Phases, rc)
			}
		}
	}
	// faults stop; let the streams settle (reconnect back-off is at most 2 s, handshake retries included)
	p.Phases = append(p.Phases, sim.Phase{Ops: []sim.Op{{K: "api_custom", C: nextAPI(), Custom: "fed_faults", Mode: "off"}}})
	p.Phases = append(p.Phases, sim.Phase{Ops: []sim.Op{{K: "sleep", C: -1, D: sim.Sec(12)}}})
	p.Phases = append(p.Phases, sim.Phase{Ops: []sim.Op{fedDumpOp(nextAPI())}})
	// a last round of messages on the settled cluster
	var last sim.Phase
	for n := 0; n < nn; n++ {
		pubs(&last, n, 1+rng.IntN(3))
	}
	p.Phases = append(p.Phases, last)
	p.Phases = append(p.Phases, sim.Phase{Ops: []sim.Op{{K: "sleep", C: -1, D: sim.Sec(3)}}})
	return p
}

func oracleC16(p *sim.Plan, out *sim.Outcome) []sim.Violation {
	vs := genericOracle(p, out)
	h := out.H
	cl, _ := out.W.Setup.Ext.(*simfed.Cluster)
	if cl == nil {
		return vs
	}
	for k, v := range cl.Faults {
		out.Faults[k] += v
	}
	// reach probe: message events that were delivered to a peer and sent to it again (the receiver's duplicate
	// cache is what keeps them from being applied twice)
	{
		deliv := map[string]int{}
		for _, e := range fedEvents(cl) {
			if m := e.Ev.GetMessage(); m != nil && e.F.DelivStep > 0 && !e.F.Lost {
				deliv[e.F.From+">"+e.F.To+"|"+string(m.Payload)]++
			}
		}
		for _, n := range deliv {
			if n > 1 {
				out.Probes["fed_message_event_delivered_again"]++
			}
		}
	}
	nn := p.Broker.Nodes
	scen := p.Params["scenario"]
	// which node does each client live on
	nodeOf := map[int]int{}
	for _, o := range h.Ops {
		if o.Op.K == "connect" {
			nodeOf[o.Op.C] = o.Op.Node
		}
	}
	// --- convergence at the dump
	var dump *fedDump
	dumpPhase := -1
	for _, o := range h.Ops {
		if o.Op.K == "api_custom" && o.Op.Custom == "fed_dump" && o.Ret != nil {
			if r, ok := o.Ret.(*sim.APIResult); ok {
				dump, _ = r.Val.(*fedDump)
				dumpPhase = o.Phase
			}
		}
	}
	settled := dump != nil && fedSettled(h, cl, dumpPhase, 10*time.Second) && fedQuietAfter(h, cl, dumpPhase)
	if dump != nil && !settled {
		out.Probes["fed_dump_not_settled"]++
	}
	if settled {
		for a := 0; a < nn; a++ {
			for b := 0; b < nn; b++ {
				if a == b {
					continue
				}
				A, B := fedNode(a), fedNode(b)
				sa, sb := dump.States[A], dump.States[B]
				if sa == nil || sb == nil {
					continue
				}
				if dump.View[B+">"+A] == "failed" {
					// B was told that A failed and nothing revoked it: B must hold no subscription of A
					out.Probes["fed_failed_views_checked"]++
					if got := sb.FedSubs[A]; len(got) > 0 {
						vs = append(vs, viol("C16", "converge", "failed-node-remembered", "node %s was told that %s failed (and never that it joined again), yet it still routes for %s's subscriptions %v", B, A, A, got))
					}
					continue
				}
				if dump.View[A+">"+B] != "alive" || dump.View[B+">"+A] != "alive" {
					continue
				}
				out.Probes["fed_pairs_compared"]++
				want := dump.Subs[A]
				got := sb.FedSubs[A]
				if !sameSet(want, got) {
					vs = append(vs, viol("C16", "converge", "view-differs",
						"after %s and 12 s without faults node %s believes that %s subscribes %v, but the local subscriptions of %s are %v (scenario %s; %s's reference-counted set: %v; unacknowledged events %s->%s: %d)",
						"the fault phases", B, A, got, A, want, scen, A, sa.LocalTopics, A, B, sa.Unacked[B]))
				}
				if len(want) > 0 {
					out.Probes["fed_nonempty_views"]++
				}
			}
		}
	}
	// --- message events: applied exactly once, in emission order
	type pubInfo struct {
		node, phase, seq int
		payload          string
	}
	var pubsOrder []pubInfo
	for _, o := range h.Ops {
		if o.Op.K != "publish" || !strings.HasPrefix(o.Op.Topic, "m/") || o.Result != "ok" && o.Result != "" {
			continue
		}
		if o.Ack == nil {
			continue
		}
		pubsOrder = append(pubsOrder, pubInfo{node: nodeOf[o.Op.C], phase: o.Phase, seq: len(pubsOrder), payload: o.Op.Payload})
	}
	// receptions per subscriber
	for c, spec := range p.Clients {
		if !strings.HasPrefix(spec.ID, "sub") {
			continue
		}
		sn := nodeOf[c]
		got := map[string]int{}
		var order []string
		for _, r := range h.Recs {
			if r.Kind == "rx" && r.C == c && r.Pkt.Type == mqttc.PUBLISH && !r.Pkt.Dup {
				pl := string(r.Pkt.Payload)
				got[pl]++
				order = append(order, pl)
			}
		}
		pos := map[string]int{}
		for i, pl := range order {
			if _, ok := pos[pl]; !ok {
				pos[pl] = i
			}
		}
		lastPos := map[int]int{}
		lastPl := map[int]string{}
		for _, pi := range pubsOrder {
			n := got[pi.payload]
			remote := pi.node != sn
			if remote && n > 0 {
				out.Probes["fed_msgs_delivered"]++
			}
			if n > 1 {
				vs = append(vs, viol("C16", "once", "duplicate", "message %q published on %s was delivered %d times to subscriber %s on %s (scenario %s)", pi.payload, fedNode(pi.node), n, spec.ID, fedNode(sn), scen))
				continue
			}
			// loss is only allowed while a session may have been lost or a node was down
			if !settled {
				continue // the premise (faults stopped, streams had time to settle) does not hold in this run
			}
			sessionLasts := scen == "cuts" || scen == "calm" || scen == "ackloss" || pi.phase > dumpPhase
			if scen == "kill" && pi.phase <= dumpPhase {
				sessionLasts = false
			}
			if dump != nil && (dump.View[fedNode(pi.node)+">"+fedNode(sn)] != "alive" || dump.View[fedNode(sn)+">"+fedNode(pi.node)] != "alive") && pi.node != sn {
				continue // one of the two nodes considers the other one gone: nothing is owed between them
			}
			if n == 0 && sessionLasts && dumpPhase >= 0 {
				where := "while the peer session lasted (only stream cuts were injected)"
				if pi.phase > dumpPhase {
					where = "on the settled cluster (12 s after the last fault)"
				}
				vs = append(vs, viol("C16", "once", "lost", "message %q published on %s %s never reached subscriber %s on %s (scenario %s)", pi.payload, fedNode(pi.node), where, spec.ID, fedNode(sn), scen))
				continue
			}
			if n == 1 {
				if lp, ok := lastPos[pi.node]; ok && pos[pi.payload] < lp {
					vs = append(vs, viol("C16", "order", "reordered", "subscriber %s on %s received %q (published on %s later) before %q", spec.ID, fedNode(sn), pi.payload, fedNode(pi.node), lastPl[pi.node]))
				}
				lastPos[pi.node], lastPl[pi.node] = pos[pi.payload], pi.payload
			}
		}
	}
	sort.SliceStable(vs, func(a, b int) bool { return vs[a].Clause < vs[b].Clause })
	return vs
}
