package checks

import (
	"context"
	"fmt"
	"github.com/DrmagicE/gmqtt/pkg/codes"
	"github.com/DrmagicE/gmqtt/server"
	"math/rand/v2"
	"sort"
	"strings"
	"time"

	"github.com/DrmagicE/gmqtt"
	"github.com/DrmagicE/gmqtt/config"
	"github.com/DrmagicE/gmqtt/persistence/subscription"
	"github.com/DrmagicE/gmqtt/plugin/federation"
	"github.com/hashicorp/serf/serf"
	"google.golang.org/protobuf/proto"

	"verifsim/mqttc"
	"verifsim/sim"
	"verifsim/simfed"
)

// Shared by C16 and C17: N real brokers with the real federation plugin, joined by the simulated
// membership service and the simulated RPC transport (simfed).

func fedNode(i int) string { return fmt.Sprintf("n%d", i) }

type fedDump struct {
	Step     int
	States   map[string]*federation.VerifState
	Subs     map[string][]string          // node -> actual local subscriptions (full topic names, set)
	Retained map[string]map[string]string // node -> topic -> payload
	View     map[string]string            // "observer>subject" -> status
}

func fedDumpOp(c int) sim.Op { return sim.Op{K: "api_custom", C: c, Custom: "fed_dump"} }

func fedSetup(p *sim.Plan) *sim.Setup {
	var us = func(k string, def int) time.Duration {
		var v int
		if _, err := fmt.Sscan(p.Params[k], &v); err != nil {
			v = def
		}
		return time.Duration(v) * time.Microsecond
	}
	cl := &simfed.Cluster{
		LatMin: us("fed_lat_min_us", 10), LatMax: us("fed_lat_max_us", 2000),
		NoticeMin: us("fed_notice_min_us", 100), NoticeMax: us("fed_notice_max_us", 300000),
		GossipMin: us("fed_gossip_min_us", 1000), GossipMax: us("fed_gossip_max_us", 800000),
	}
	fmt.Sscan(p.Params["fed_cutprob"], &cl.CutProb)
	fmt.Sscan(p.Params["fed_maxcuts"], &cl.MaxCuts)
	cl.Rng = rand.New(rand.NewPCG(p.Seed, 0xfed))
	simfed.Install(cl)
	nn := p.Broker.Nodes
	for i := 0; i < nn; i++ {
		cl.AddrNode[fedNode(i)+":8901"] = fedNode(i)
		cl.AddrNode[fedNode(i)+":8902"] = fedNode(i)
	}
	fedOf := func(w *sim.World, n int) *federation.Federation {
		if n >= len(w.Nodes) || w.Nodes[n].Srv == nil {
			return nil
		}
		for _, pl := range w.Nodes[n].Srv.Plugins() {
			if f, ok := pl.(*federation.Federation); ok {
				return f
			}
		}
		return nil
	}
	pair := func(s string) (string, string) {
		a, b, _ := strings.Cut(s, ">")
		return a, b
	}
	return &sim.Setup{
		Ext:     cl,
		Cleanup: func() { simfed.Install(nil) },
		// the embedding program's own OnMsgArrived hook (innermost: the federation plugin wraps it) refuses messages
		// whose payload says so: what a hook refuses is forwarded to no peer either
		EditHooks: func(w *sim.World, n int, h *server.Hooks) {
			h.OnMsgArrived = func(ctx context.Context, client server.Client, req *server.MsgArrivedRequest) error {
				if strings.HasPrefix(string(req.Publish.Payload), "rej-") {
					return codes.NewError(codes.NotAuthorized)
				}
				return nil
			}
		},
		Config: func(w *sim.World, n int, cfg *config.Config) {
			if cl.S == nil {
				cl.S, cl.After, cl.T0 = w.S, w.After, w.T0
				// operations of a plan can wait for "the Hello reply reaches node X" (X is about to run its
				// full-state synchronisation): subscription changes land inside the handshake
				cl.OnDeliver = func(f *simfed.Frame) {
					if f.Kind == "resp" && strings.HasSuffix(f.Method, "Hello") {
						w.FireTrigger("hello>" + f.To)
					}
				}
			}
			fc := &federation.Config{
				NodeName: fedNode(n), FedAddr: fedNode(n) + ":8901", AdvertiseFedAddr: fedNode(n) + ":8901",
				GossipAddr: fedNode(n) + ":8902", AdvertiseGossipAddr: fedNode(n) + ":8902",
				RetryInterval: 500 * time.Millisecond, RetryTimeout: 30 * time.Second,
			}
			// everybody but the first node joins through an earlier node
			if n > 0 {
				fc.RetryJoin = []string{fedNode(0) + ":8902"}
			} else if w.Nodes[n].Gen > 1 && nn > 1 {
				fc.RetryJoin = []string{fedNode(1) + ":8902"}
			}
			cfg.Plugins = map[string]config.Configuration{"federation": fc}
			cfg.PluginOrder = []string{"federation"}
		},
		Custom: map[string]func(w *sim.World, op *sim.Op) any{
			"fed_faults": func(w *sim.World, op *sim.Op) any {
				cl.FaultsOn = op.Mode == "on"
				return op.Mode
			},
			"fed_cut": func(w *sim.World, op *sim.Op) any {
				a, b := pair(op.Target)
				n := cl.CutBetween(a, b)
				if n > 0 {
					w.Fault("fed.cut_injected")
				}
				return n
			},
			"fed_block": func(w *sim.World, op *sim.Op) any {
				a, b := pair(op.Target)
				cl.Block(a, b, op.Mode == "on")
				if op.Mode == "on" {
					w.Fault("fed.partition")
				}
				return op.Mode
			},
			// what node b sends back to node a on a's streams (acknowledgements) hangs in the network
			"fed_hold_acks": func(w *sim.World, op *sim.Op) any {
				a, b := pair(op.Target)
				cl.HoldBack(a, b, op.Mode == "on")
				if op.Mode == "on" {
					w.Fault("fed.acks_held_back")
				}
				return op.Mode
			},
			// membership events as serf would deliver them: observer>subject
			"fed_fail": func(w *sim.World, op *sim.Op) any {
				a, b := pair(op.Target)
				cl.Notify(a, b, serf.EventMemberFailed, 0)
				w.Fault("fed.member_failed")
				return nil
			},
			"fed_join": func(w *sim.World, op *sim.Op) any {
				a, b := pair(op.Target)
				cl.Notify(a, b, serf.EventMemberJoin, 0)
				return nil
			},
			// the node's process dies: nothing it does from now on is seen by anybody
			"fed_kill": func(w *sim.World, op *sim.Op) any {
				nd := w.Nodes[op.Node]
				srv := nd.Srv
				if srv == nil {
					return "not running"
				}
				f := fedOf(w, op.Node)
				cl.KillNode(fedNode(op.Node))
				if f != nil {
					f.VerifKill()
				}
				w.Fault("fed.node_killed")
				nd.StopIssued = true
				ctx, cancel := context.WithTimeout(context.Background(), 5*time.Second)
				defer cancel()
				err := srv.Stop(ctx)
				return fmt.Sprint(err)
			},
			"fed_dump": func(w *sim.World, op *sim.Op) any {
				d := &fedDump{Step: w.Step(), States: map[string]*federation.VerifState{}, Subs: map[string][]string{}, Retained: map[string]map[string]string{}, View: map[string]string{}}
				for i := range w.Nodes {
					name := fedNode(i)
					f := fedOf(w, i)
					if f == nil || w.Nodes[i].StopIssued || !cl.Alive(name) {
						continue // not running: no state to compare
					}
					d.States[name] = f.VerifState()
					srv := w.Nodes[i].Srv
					set := map[string]bool{}
					srv.SubscriptionService().Iterate(func(cid string, s *gmqtt.Subscription) bool {
						set[s.GetFullTopicName()] = true
						return true
					}, subscription.IterationOptions{Type: subscription.TypeAll})
					for k := range set {
						d.Subs[name] = append(d.Subs[name], k)
					}
					sort.Strings(d.Subs[name])
					d.Retained[name] = map[string]string{}
					srv.RetainedService().Iterate(func(m *gmqtt.Message) bool { d.Retained[name][m.Topic] = string(m.Payload); return true })
					for j := range w.Nodes {
						if i != j {
							d.View[name+">"+fedNode(j)] = cl.View(name, fedNode(j))
						}
					}
				}
				return d
			},
		},
	}
}

// fedCluster returns the cluster of the run that just finished (still installed until Cleanup).
func fedEvents(cl *simfed.Cluster) []fedFrame {
	var out []fedFrame
	for _, f := range cl.Log {
		if f.Kind != "msg" || f.Type != "gmqtt.federation.api.Event" {
			continue
		}
		ev := &federation.Event{}
		if err := proto.Unmarshal(f.B, ev); err != nil {
			continue
		}
		out = append(out, fedFrame{F: f, Ev: ev})
	}
	return out
}

type fedFrame struct {
	F  *simfed.Frame
	Ev *federation.Event
}

func sameSet(a, b []string) bool {
	if len(a) != len(b) {
		return false
	}
	for i := range a {
		if a[i] != b[i] {
			return false
		}
	}
	return true
}

// fedSettled reports whether, when phase ph started, nothing had disturbed the federation for at least d of
// simulated time: no subscription change, connection change, injected fault or membership event.
func fedSettled(h *sim.History, cl *simfed.Cluster, ph int, d time.Duration) bool {
	var start time.Duration = -1
	var last time.Duration
	for _, r := range h.Recs {
		if r.Kind == "phase" && r.Note == fmt.Sprintf("start %d", ph) {
			start = r.T
			break
		}
		switch r.Kind {
		case "open", "cclose", "bclose":
			last = r.T
		case "tx", "rx":
			if r.Pkt != nil {
				switch r.Pkt.Type {
				case mqttc.SUBSCRIBE, mqttc.SUBACK, mqttc.UNSUBSCRIBE, mqttc.UNSUBACK, mqttc.CONNECT, mqttc.CONNACK, mqttc.DISCONNECT:
					last = r.T
				}
			}
		case "api_inv", "api_ret":
			last = r.T
		}
	}
	if start < 0 {
		return false
	}
	if cl.LastFault > last && cl.LastFault <= start {
		last = cl.LastFault
	}
	for _, m := range cl.Members {
		if m.At <= start && m.At > last {
			last = m.At
		}
	}
	return start-last >= d
}

// fedQuietAfter reports whether nothing but PUBLISH traffic (and the dump itself) happened from phase ph on.
func fedQuietAfter(h *sim.History, cl *simfed.Cluster, ph int) bool {
	var start time.Duration = -1
	in := false
	for _, r := range h.Recs {
		if r.Kind == "phase" && r.Note == fmt.Sprintf("start %d", ph) {
			start, in = r.T, true
			continue
		}
		if !in {
			continue
		}
		if r.Kind == "phase" && r.Note == "final" {
			break
		}
		switch r.Kind {
		case "open", "cclose", "bclose":
			return false
		case "tx", "rx":
			if r.Pkt != nil {
				switch r.Pkt.Type {
				case mqttc.SUBSCRIBE, mqttc.UNSUBSCRIBE, mqttc.CONNECT, mqttc.DISCONNECT:
					return false
				}
			}
		case "api_inv":
			if r.Note != "api_custom" || r.Op < 0 || r.Op >= len(h.Ops) || h.Ops[r.Op].Op.Custom != "fed_dump" {
				return false
			}
		}
	}
	if start < 0 || cl.LastFault > start {
		return false
	}
	for _, m := range cl.Members {
		if m.At > start {
			return false
		}
	}
	return true
}
