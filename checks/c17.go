package checks

import (
	"fmt"
	"math/rand/v2"
	"sort"
	"strings"
	"time"
	"unicode/utf8"

	"verifsim/model"
	"verifsim/mqttc"
	"verifsim/sim"
	"verifsim/simfed"
)

// C17: federation routing. 2-3 real brokers with the real federation plugin on the simulated
// membership service and RPC transport (no transport faults here: C16 has them); subscriptions of
// every kind distributed over the nodes, publishes from every node once the subscription changes
// have propagated; scheduling, message latency and gossip delays are seeded.

func init() {
	register(&Check{ID: "C17", Gen: genC17, Oracle: oracleC17, Setup: fedSetup,
		Nontrivial: func(p *sim.Plan, out *sim.Outcome) bool {
			return out.Probes["fed_remote_deliveries"] >= 2
		}})
}

var c17topics = []string{"t/0", "t/1", "u/0", "$x/0"}
var c17plain = []string{"t/0", "t/1", "t/#", "t/+", "#", "+/0", "u/0", "$x/0", "$x/#", "+/+"}
var c17shared = []string{"$share/g/t/0", "$share/g/t/#", "$share/h/t/0", "$share/g/#", "$share/g/u/0", "$share/g/$x/0"}

func genC17(rng *rand.Rand, tier string) *sim.Plan {
	p := NewPlan("C17", rng.Uint64(), rng)
	nn := 2 + rng.IntN(2)
	p.Broker.Nodes = nn
	p.Broker.DeliveryMode = "onlyonce"
	p.Sched.MaxSteps = 1500000
	p.Params = map[string]string{
		"fed_cutprob":       "0",
		"fed_lat_max_us":    fmt.Sprint(pick(rng, []int{50, 2000, 50000})),
		"fed_gossip_max_us": fmt.Sprint(pick(rng, []int{5000, 800000})),
	}
	// per node: two plain subscribers, two share-group members, one publisher
	type nodeClients struct {
		plain, shared []int
		pub, will     int
	}
	var nc []nodeClients
	add := func(name string) int {
		p.Clients = append(p.Clients, sim.ClientSpec{ID: name, Ver: pick(rng, []byte{4, 5})})
		return len(p.Clients) - 1
	}
	for n := 0; n < nn; n++ {
		var c nodeClients
		c.plain = []int{add(fmt.Sprintf("pl%da", n)), add(fmt.Sprintf("pl%db", n))}
		c.shared = []int{add(fmt.Sprintf("sh%da", n)), add(fmt.Sprintf("sh%db", n))}
		c.pub = add(fmt.Sprintf("pub%d", n))
		c.will = add(fmt.Sprintf("wl%d", n))
		nc = append(nc, c)
	}
	var ph sim.Phase
	for n := 0; n < nn; n++ {
		for _, c := range append(append([]int{nc[n].pub}, nc[n].plain...), nc[n].shared...) {
			ph.Ops = append(ph.Ops, sim.Op{K: "connect", C: c, Node: n, Clean: true})
		}
	}
	p.Phases = append(p.Phases, ph)
	p.Phases = append(p.Phases, sim.Phase{Ops: []sim.Op{{K: "sleep", C: -1, D: sim.Sec(4)}}})
	msg := 0
	sharedOf := map[int]string{}
	sharedOn := map[int]bool{}
	for n := 0; n < nn; n++ {
		for _, c := range nc[n].shared {
			sharedOf[c] = pick(rng, c17shared)
		}
	}
	rounds := 1 + rng.IntN(3)
	if tier == "thorough" {
		rounds = 2 + rng.IntN(4)
	}
	binaryCorr := chance(rng, 0.08) // Correlation Data that is not UTF-8 (it is binary data) may occur in this run
	sparse := chance(rng, 0.4)      // few subscriptions: nodes without any matching subscription are likely
	for r := 0; r < rounds; r++ {
		var sp sim.Phase
		for n := 0; n < nn; n++ {
			for _, c := range nc[n].plain {
				k := rng.IntN(3)
				if sparse {
					k = rng.IntN(2) * rng.IntN(2)
				}
				for i := 0; i < k; i++ {
					f := pick(rng, c17plain)
					if r > 0 && chance(rng, 0.4) {
						sp.Ops = append(sp.Ops, sim.Op{K: "unsubscribe", C: c, Filters: []string{f}})
					} else {
						sp.Ops = append(sp.Ops, sim.Op{K: "subscribe", C: c, Subs: []mqttc.Sub{{Filter: f, QoS: byte(rng.IntN(2))}}})
					}
				}
			}
			// a share-group member holds one shared filter (so that every copy it receives is attributable)
			for _, c := range nc[n].shared {
				if sparse && chance(rng, 0.6) {
					continue
				}
				switch {
				case !sharedOn[c] && chance(rng, 0.7):
					sharedOn[c] = true
					sp.Ops = append(sp.Ops, sim.Op{K: "subscribe", C: c, Subs: []mqttc.Sub{{Filter: sharedOf[c], QoS: byte(rng.IntN(2))}}})
				case sharedOn[c] && chance(rng, 0.3):
					sharedOn[c] = false
					sp.Ops = append(sp.Ops, sim.Op{K: "unsubscribe", C: c, Filters: []string{sharedOf[c]}})
				}
			}
		}
		// a client with a will per node: when its connection is cut, the will is a message published on that node
		willCut := map[int]bool{}
		for n := 0; n < nn; n++ {
			if chance(rng, 0.4) {
				msg++
				wl := &sim.Will{Topic: pick(rng, c17topics), Payload: fmt.Sprintf("w%d", msg), QoS: byte(rng.IntN(2))}
				sp.Ops = append(sp.Ops, sim.Op{K: "connect", C: nc[n].will, Node: n, Clean: true, Will: wl})
				willCut[n] = true
			}
		}
		p.Phases = append(p.Phases, sp)
		// propagation
		p.Phases = append(p.Phases, sim.Phase{Ops: []sim.Op{{K: "sleep", C: -1, D: sim.Sec(2)}}})
		var pp sim.Phase
		retainedTopic := map[string]bool{}
		for n := 0; n < nn; n++ {
			for i := 0; i < rng.IntN(4); i++ {
				msg++
				op := sim.Op{K: "publish", C: nc[n].pub, Topic: pick(rng, c17topics), QoS: byte(rng.IntN(2)), Payload: fmt.Sprintf("p%d", msg)}
				if p.Clients[nc[n].pub].Ver == 5 && chance(rng, 0.1) {
					op.Payload, op.QoS = "rej-"+op.Payload, 1 // refused by the OnMsgArrived hook of the node: goes nowhere
				}
				if p.Clients[nc[n].pub].Ver == 5 && chance(rng, 0.4) {
					randMsgProps(rng, &op) // "exactly as a local subscriber would": the forwarded copy keeps its properties
					if !binaryCorr && !utf8.Valid(op.Corr) {
						op.Corr = []byte("c-" + op.Payload) // see the known finding: binary correlation data breaks the peer stream
					}
				}
				if chance(rng, 0.2) && !retainedTopic[op.Topic] {
					// at most one retained publish per topic and round (no cross-node write conflicts)
					retainedTopic[op.Topic] = true
					op.Retain = true
					if chance(rng, 0.35) {
						op.Payload = ""
					}
				}
				pp.Ops = append(pp.Ops, op)
			}
		}
		p.Phases = append(p.Phases, pp)
		p.Phases = append(p.Phases, sim.Phase{Ops: []sim.Op{{K: "sleep", C: -1, D: sim.Sec(2)}}})
		if len(willCut) > 0 {
			// one phase per cut, so that the order of the publications of a node is defined
			for n := 0; n < nn; n++ {
				if willCut[n] {
					p.Phases = append(p.Phases, sim.Phase{Ops: []sim.Op{{K: "cut", C: nc[n].will}}})
				}
			}
			p.Phases = append(p.Phases, sim.Phase{Ops: []sim.Op{{K: "sleep", C: -1, D: sim.Sec(2)}}})
		}
	}
	p.Phases = append(p.Phases, sim.Phase{Ops: []sim.Op{fedDumpOp(-2)}})
	return p
}

func oracleC17(p *sim.Plan, out *sim.Outcome) []sim.Violation {
	vs := genericOracle(p, out)
	h := out.H
	cl, _ := out.W.Setup.Ext.(*simfed.Cluster)
	if cl == nil {
		return vs
	}
	nn := p.Broker.Nodes
	nodeOf := map[int]int{}
	for _, o := range h.Ops {
		if o.Op.K == "connect" {
			nodeOf[o.Op.C] = o.Op.Node
		}
	}
	// the cluster must have formed before anything is judged
	formed := true
	for a := 0; a < nn; a++ {
		for b := 0; b < nn; b++ {
			if a != b && cl.View(fedNode(a), fedNode(b)) != "alive" {
				formed = false
			}
		}
	}
	if !formed {
		return vs
	}
	// premise of every routing clause: the subscription change has propagated, i.e. the publish phase
	// started at least 1.5 s of quiet simulated time after the last subscription change
	phaseStart := map[int]time.Duration{}
	for _, r := range h.Recs {
		if r.Kind == "phase" {
			var k int
			if n, _ := fmt.Sscanf(r.Note, "start %d", &k); n == 1 {
				phaseStart[k] = r.T
			}
		}
	}
	lastSubChange := func(before time.Duration) time.Duration {
		var last time.Duration
		for _, r := range h.Recs {
			if r.T > before {
				break
			}
			if (r.Kind == "tx" || r.Kind == "rx") && r.Pkt != nil {
				switch r.Pkt.Type {
				case mqttc.SUBSCRIBE, mqttc.SUBACK, mqttc.UNSUBSCRIBE, mqttc.UNSUBACK, mqttc.CONNECT, mqttc.CONNACK:
					last = r.T
				}
			}
		}
		return last
	}
	// subscription state per client, replayed over the acknowledged operations in order
	subs := map[int]map[string]bool{}
	subQoS := map[int]map[string]byte{}
	received := map[int]map[string]int{}
	recvPkt := map[int]map[string]*mqttc.Packet{}
	for _, r := range h.Recs {
		if r.Kind == "rx" && r.Pkt.Type == mqttc.PUBLISH && !r.Pkt.Dup {
			if received[r.C] == nil {
				received[r.C] = map[string]int{}
				recvPkt[r.C] = map[string]*mqttc.Packet{}
			}
			received[r.C][string(r.Pkt.Payload)+"|"+r.Pkt.Topic]++
			recvPkt[r.C][string(r.Pkt.Payload)+"|"+r.Pkt.Topic] = r.Pkt
		}
	}
	events := fedEvents(cl)
	type ret struct {
		payload string
		node    int
	}
	lastRetained := map[string]ret{}
	cnt := map[int]map[string]uint64{} // origin -> share topic -> messages routed so far (sharedSent)
	uncertain := false
	// the will of a connection that is cut is a message published on that node at that moment
	var ops []*sim.OpRec
	willOf := map[int]*sim.Will{}
	for _, o := range h.Ops {
		switch {
		case o.Op.K == "connect" && o.Ack != nil && o.Ack.Code == 0:
			willOf[o.Op.C] = o.Op.Will
		case o.Op.K == "cut" && willOf[o.Op.C] != nil && o.Inv >= 0:
			wl := willOf[o.Op.C]
			willOf[o.Op.C] = nil
			out.Probes["fed_wills"]++
			ops = append(ops, &sim.OpRec{Idx: o.Idx, Phase: o.Phase, Inv: o.Inv, Resp: o.Resp, Result: "ok", Ack: &mqttc.Packet{},
				Op: &sim.Op{K: "publish", C: o.Op.C, Topic: wl.Topic, Payload: wl.Payload, QoS: wl.QoS, Retain: wl.Retain}})
			continue
		}
		ops = append(ops, o)
	}
	for _, o := range ops {
		switch o.Op.K {
		case "subscribe":
			if o.Ack == nil {
				continue
			}
			for i, s := range o.Op.Subs {
				if i < len(o.Ack.Codes) && o.Ack.Codes[i] >= 0x80 {
					continue
				}
				if subs[o.Op.C] == nil {
					subs[o.Op.C] = map[string]bool{}
					subQoS[o.Op.C] = map[string]byte{}
				}
				subs[o.Op.C][s.Filter] = true
				subQoS[o.Op.C][s.Filter] = s.QoS
				if i < len(o.Ack.Codes) {
					subQoS[o.Op.C][s.Filter] = o.Ack.Codes[i]
				}
			}
		case "unsubscribe":
			if o.Ack == nil {
				continue
			}
			for _, f := range o.Op.Filters {
				delete(subs[o.Op.C], f)
			}
		case "publish":
			if strings.HasPrefix(o.Op.Payload, "rej-") {
				// refused by the node's OnMsgArrived hook: delivered to nobody, forwarded to no peer, not retained anywhere
				for c, m := range received {
					if m[o.Op.Payload+"|"+o.Op.Topic] > 0 {
						vs = append(vs, viol("C17", "deliver", "refused-delivered", "message %q, refused by the OnMsgArrived hook of %s, reached %s", o.Op.Payload, fedNode(nodeOf[o.Op.C]), p.Clients[c].ID))
					}
				}
				for _, e := range events {
					if m := e.Ev.GetMessage(); m != nil && string(m.Payload) == o.Op.Payload {
						vs = append(vs, viol("C17", "forward", "refused-forwarded", "message %q, refused by the OnMsgArrived hook of %s, was forwarded to %s", o.Op.Payload, e.F.From, e.F.To))
						break
					}
				}
				continue
			}
			if o.Result != "ok" && o.Result != "" || o.Inv < 0 {
				continue
			}
			if o.Op.QoS > 0 && o.Ack == nil {
				continue
			}
			st, ok := phaseStart[o.Phase]
			if !ok || st-lastSubChange(st) < 1500*time.Millisecond {
				out.Probes["fed_publish_premise_unmet"]++
				uncertain = true // the round-robin counters can no longer be followed
				continue
			}
			origin := nodeOf[o.Op.C]
			topic, payload := o.Op.Topic, o.Op.Payload
			key := payload + "|" + topic
			if o.Op.Retain {
				lastRetained[topic] = ret{payload, origin}
			}
			// which nodes have a matching subscription, and of which kind
			plainOn := map[int]bool{}
			sharedOn := map[int]bool{}
			groups := map[string][]int{} // full shared topic -> member clients
			for c, fs := range subs {
				for f := range fs {
					share, filter := model.SplitShare(f)
					if !model.Match(filter, topic) {
						continue
					}
					if share == "" {
						plainOn[nodeOf[c]] = true
					} else {
						sharedOn[nodeOf[c]] = true
						groups[f] = append(groups[f], c)
					}
				}
			}
			// (1) every matching non-shared subscriber anywhere receives it exactly once, others nothing
			for c, spec := range p.Clients {
				if !strings.HasPrefix(spec.ID, "pl") {
					continue
				}
				match := false
				for f := range subs[c] {
					if model.Match(f, topic) {
						match = true
					}
				}
				got := received[c][key]
				if o.Op.Retain {
					continue // retained messages are also replayed to later subscriptions: judged through the stores (4)
				}
				remote := nodeOf[c] != origin
				switch {
				case match && got == 0:
					vs = append(vs, viol("C17", "deliver", fmt.Sprintf("missing-%s", locality(remote)), "message %q on %q published on %s (retain=%v) never reached subscriber %s on %s although its subscription %v matches and had been in place for more than 1.5 s", payload, topic, fedNode(origin), o.Op.Retain, spec.ID, fedNode(nodeOf[c]), keys(subs[c])))
				case match && got > 1:
					vs = append(vs, viol("C17", "deliver", fmt.Sprintf("duplicate-%s", locality(remote)), "message %q on %q published on %s (retain=%v) reached subscriber %s on %s %d times", payload, topic, fedNode(origin), o.Op.Retain, spec.ID, fedNode(nodeOf[c]), got))
				case !match && got > 0:
					vs = append(vs, viol("C17", "deliver", "unexpected", "message %q on %q published on %s reached %s on %s whose subscriptions %v do not match", payload, topic, fedNode(origin), spec.ID, fedNode(nodeOf[c]), keys(subs[c])))
				}
				if match && got == 1 && remote {
					out.Probes["fed_remote_deliveries"]++
				}
				if match && got == 1 {
					// "exactly as a local subscriber would": QoS = min(published, highest matching granted), properties kept
					pk := recvPkt[c][key]
					var maxq byte
					for f := range subs[c] {
						if model.Match(f, topic) && subQoS[c][f] > maxq {
							maxq = subQoS[c][f]
						}
					}
					want := min(o.Op.QoS, maxq)
					if pk.QoS != want {
						vs = append(vs, viol("C17", "deliver", fmt.Sprintf("qos-%s", locality(remote)), "message %q on %q published at QoS %d on %s reached subscriber %s on %s (granted QoS %d) at QoS %d", payload, topic, o.Op.QoS, fedNode(origin), spec.ID, fedNode(nodeOf[c]), maxq, pk.QoS))
					}
					if spec.Ver == 5 {
						if d := msgPropsMismatch(o.Op, p.Clients[o.Op.C].Ver == 5, pk); d != "" {
							vs = append(vs, viol("C17", "deliver", fmt.Sprintf("properties-%s", locality(remote)), "message %q on %q published on %s reached subscriber %s on %s with %s", payload, topic, fedNode(origin), spec.ID, fedNode(nodeOf[c]), d))
						}
					}
				}
			}
			// (2) a share group gets exactly one copy in the whole federation.  Next to the demand, the
			// as-built routing (hooks.go sendMessage + eventStreamHandler) is replayed so that a miscount
			// is classified: "asbuilt-*" = exactly what the recorded design defect produces, anything
			// else is unexplained.
			gnames := make([]string, 0, len(groups))
			for g := range groups {
				gnames = append(gnames, g)
			}
			sort.Strings(gnames)
			membersAt := func(g string, n int) int {
				k := 0
				for _, c := range groups[g] {
					if nodeOf[c] == n {
						k++
					}
				}
				return k
			}
			forwardSet := map[int]bool{}
			remoteChosen := map[int]bool{}
			if !o.Op.Retain {
				if cnt[origin] == nil {
					cnt[origin] = map[string]uint64{}
				}
				for _, g := range gnames {
					var v []string
					for i := 0; i < membersAt(g, origin); i++ {
						v = append(v, fedNode(origin))
					}
					for n := 0; n < nn; n++ {
						if n != origin && membersAt(g, n) > 0 {
							v = append(v, fedNode(n))
						}
					}
					sort.Strings(v)
					ch := v[cnt[origin][g]%uint64(len(v))]
					cnt[origin][g]++
					if ch != fedNode(origin) {
						var k int
						fmt.Sscanf(ch, "n%d", &k)
						remoteChosen[k] = true
						forwardSet[k] = true
					}
				}
				for n := range plainOn {
					if n != origin {
						forwardSet[n] = true
					}
				}
			}
			if payload != "" && !o.Op.Retain {
				for _, g := range gnames {
					total := 0
					nodes := map[int]bool{}
					var who []string
					for _, c := range groups[g] {
						nodes[nodeOf[c]] = true
						if n := received[c][key]; n > 0 {
							total += n
							who = append(who, fmt.Sprintf("%s@%s x%d", p.Clients[c].ID, fedNode(nodeOf[c]), n))
						}
					}
					sort.Strings(who)
					if len(nodes) > 1 {
						out.Probes["fed_spanning_groups"]++
					}
					asbuilt := 0
					if len(remoteChosen) == 0 && membersAt(g, origin) > 0 {
						asbuilt++
					}
					for n := range forwardSet {
						if membersAt(g, n) > 0 {
							asbuilt++
						}
					}
					if total == 1 {
						out.Probes["fed_shared_exactly_one"]++
						if asbuilt != 1 && !uncertain {
							out.Probes["fed_asbuilt_model_mismatch"]++
						}
						continue
					}
					span := "on one node"
					if len(nodes) > 1 {
						span = "spanning nodes"
					}
					class := "unexplained"
					if !uncertain && total == asbuilt {
						class = "asbuilt"
					}
					vs = append(vs, viol("C17", "shared", fmt.Sprintf("%s-copies-%s", class, countWord(total)), "message %q on %q published on %s: share group %q (%d members, %s) received %d copies (%v); nodes with a matching non-shared subscription: %v; nodes chosen for the matching share groups: %v; the as-built routing predicts %d", payload, topic, fedNode(origin), g, len(groups[g]), span, total, who, nodeList(plainOn), nodeList(remoteChosen), asbuilt))
				}
			}
			// (3) forwarding: only from the origin, at most once per peer, only to peers that need it
			if payload == "" {
				continue // an empty payload carries no identity: judged through the stores (4)
			}
			perDest := map[string]int{}
			for _, e := range events {
				m := e.Ev.GetMessage()
				if m == nil || string(m.Payload) != payload || m.TopicName != topic || m.Retained != o.Op.Retain {
					continue
				}
				if e.F.From != fedNode(origin) {
					vs = append(vs, viol("C17", "forward", "reforwarded", "message %q published on %s was forwarded again by %s to %s", payload, fedNode(origin), e.F.From, e.F.To))
					continue
				}
				perDest[e.F.To]++
			}
			for b := 0; b < nn; b++ {
				if b == origin {
					if perDest[fedNode(b)] > 0 {
						vs = append(vs, viol("C17", "forward", "to-origin", "message %q was sent back to its origin %s", payload, fedNode(origin)))
					}
					continue
				}
				n := perDest[fedNode(b)]
				needs := plainOn[b]
				switch {
				case n > 1:
					vs = append(vs, viol("C17", "forward", "twice", "message %q on %q was forwarded %d times from %s to %s", payload, topic, n, fedNode(origin), fedNode(b)))
				case o.Op.Retain && n == 0:
					vs = append(vs, viol("C17", "retained", "not-broadcast", "retained message %q on %q published on %s was not sent to peer %s", payload, topic, fedNode(origin), fedNode(b)))
				case !o.Op.Retain && needs && n == 0:
					vs = append(vs, viol("C17", "forward", "not-forwarded", "message %q on %q published on %s was not forwarded to %s, which has a matching non-shared subscription", payload, topic, fedNode(origin), fedNode(b)))
				case !o.Op.Retain && !needs && !sharedOn[b] && n > 0:
					vs = append(vs, viol("C17", "forward", "needless", "message %q on %q published on %s was forwarded to %s, which has no matching subscription", payload, topic, fedNode(origin), fedNode(b)))
				case !o.Op.Retain && !uncertain && !needs && sharedOn[b] && (n > 0) != forwardSet[b]:
					vs = append(vs, viol("C17", "forward", "shared-choice", "message %q on %q published on %s: peer %s has only share-group members; forwarded %d times although the round-robin choice (nodes chosen: %v) says %v", payload, topic, fedNode(origin), fedNode(b), n, nodeList(remoteChosen), forwardSet[b]))
				}
				if !o.Op.Retain && !needs && !sharedOn[b] && n == 0 {
					out.Probes["fed_nodes_correctly_skipped"]++
				}
			}
		}
	}
	// (4) retained store of every node reflects the last retained publish per topic
	for _, o := range h.Ops {
		if o.Op.K != "api_custom" || o.Op.Custom != "fed_dump" || o.Ret == nil {
			continue
		}
		r, _ := o.Ret.(*sim.APIResult)
		if r == nil {
			continue
		}
		d, _ := r.Val.(*fedDump)
		if d == nil {
			continue
		}
		topics := make([]string, 0, len(lastRetained))
		for t := range lastRetained {
			topics = append(topics, t)
		}
		sort.Strings(topics)
		for _, t := range topics {
			want := lastRetained[t]
			for n := 0; n < nn; n++ {
				got, ok := d.Retained[fedNode(n)][t]
				out.Probes["fed_retained_compared"]++
				where := "peer"
				if n == want.node {
					where = "origin"
				}
				switch {
				case want.payload == "" && ok:
					vs = append(vs, viol("C17", "retained", "clear-not-applied-"+where, "topic %q was cleared by an empty retained message published on %s, but the retained store of %s (%s) still holds %q", t, fedNode(want.node), fedNode(n), where, got))
				case want.payload != "" && (!ok || got != want.payload):
					vs = append(vs, viol("C17", "retained", "not-stored-"+where, "the last retained message on %q is %q (published on %s), but the retained store of %s (%s) holds %q (present=%v)", t, want.payload, fedNode(want.node), fedNode(n), where, got, ok))
				}
			}
		}
	}
	// Known finding (recorded, not repaired): the peer event carries Correlation Data in a protobuf string field, so
	// a message whose correlation data is not valid UTF-8 cannot be marshalled; it stays at the head of the peer queue
	// and the stream from that node is re-established and broken again for ever. From then on nothing the node emits
	// reaches its peers. Runs in which such a message was published are judged under their own signatures.
	for _, o := range h.Ops {
		if o.Op.K == "publish" && o.Inv >= 0 && !utf8.Valid(o.Op.Corr) && p.Clients[o.Op.C].Ver == 5 {
			out.Probes["fed_binary_correlation_data_published"]++
			for i := range vs {
				switch vs[i].Clause {
				case "deliver", "forward", "retained", "shared":
					if !strings.HasSuffix(vs[i].Sig, "@binary-correlation-data") {
						vs[i].Sig += "@binary-correlation-data"
					}
				}
			}
			break
		}
	}
	return vs
}

func locality(remote bool) string {
	if remote {
		return "remote"
	}
	return "local"
}

func countWord(n int) string {
	switch {
	case n == 0:
		return "none"
	case n == 2:
		return "two"
	case n > 2:
		return "many"
	}
	return fmt.Sprint(n)
}

func keys(m map[string]bool) []string {
	var k []string
	for x := range m {
		k = append(k, x)
	}
	sort.Strings(k)
	return k
}

func nodeList(m map[int]bool) []string {
	var k []string
	for x := range m {
		k = append(k, fedNode(x))
	}
	sort.Strings(k)
	return k
}
