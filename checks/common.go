// Package checks holds one workload generator and oracle per property, plus the worker entry point
// that the driver (cmd/vcheck) runs as a test binary.
package checks

import (
	"fmt"
	"math/rand/v2"
	"sort"

	"verifsim/mqttc"
	"verifsim/sim"
)

// Check is the definition of one property check.
type Check struct {
	ID string
	// Gen derives the complete plan of run idx from the seed.
	Gen func(rng *rand.Rand, tier string) *sim.Plan
	// Setup builds broker customisation for a plan (hooks, plugins).
	Setup func(p *sim.Plan) *sim.Setup
	// Oracle judges the finished run.
	Oracle func(p *sim.Plan, out *sim.Outcome) []sim.Violation
	// Custom, when set, runs the whole simulation itself (store-level checks).
	Custom func(t TB, p *sim.Plan) *sim.Outcome
	// Nontrivial reports whether the run exercised the property in a non-trivial way.
	Nontrivial func(p *sim.Plan, out *sim.Outcome) bool
}

// TB is the subset of testing.T the checks need.
type TB interface {
	Helper()
	Logf(string, ...any)
}

var registry = map[string]*Check{}

func register(c *Check) { registry[c.ID] = c }

// Get returns the check of a property.
func Get(id string) *Check { return registry[id] }

// IDs lists registered checks.
func IDs() []string {
	var r []string
	for k := range registry {
		r = append(r, k)
	}
	sort.Strings(r)
	return r
}

// splitmix derives independent seeds.
func splitmix(x uint64) uint64 {
	x += 0x9e3779b97f4a7c15
	z := x
	z = (z ^ (z >> 30)) * 0xbf58476d1ce4e5b9
	z = (z ^ (z >> 27)) * 0x94d049bb133111eb
	return z ^ (z >> 31)
}

// RunSeed derives the seed of run idx of property prop from the base seed.
func RunSeed(base uint64, prop string, idx int) uint64 {
	h := base
	for _, c := range []byte(prop) {
		h = splitmix(h ^ uint64(c))
	}
	return splitmix(h ^ uint64(idx)*0x9e3779b97f4a7c15)
}

// NewPlan creates a plan skeleton with schedule and network parameters drawn from rng (swarm style).
func NewPlan(prop string, seed uint64, rng *rand.Rand) *sim.Plan {
	p := &sim.Plan{Prop: prop, Seed: seed}
	biases := []float64{0.02, 0.1, 0.3, 0.6}
	p.Sched = sim.SchedCfg{Seed: splitmix(seed ^ 1), SwitchProb: biases[rng.IntN(len(biases))]}
	p.Net = sim.NetCfg{Seed: splitmix(seed ^ 2), ChunkMode: rng.IntN(4), LatMinUs: 1, LatMaxUs: []int{5, 50, 500, 5000}[rng.IntN(4)], ZeroLat: rng.IntN(4) == 0}
	return p
}

// pick returns a random element.
func pick[T any](rng *rand.Rand, xs []T) T { return xs[rng.IntN(len(xs))] }

func chance(rng *rand.Rand, p float64) bool { return rng.Float64() < p }

// small topic universe: levels a b c, empty level, $-topics
var topicNames = []string{"a", "b", "a/b", "a/c", "a/b/c", "b/c", "a/", "/a", "a//b", "c", "$SYS/x", "$x/a", "a/b/c/d"}
var topicFilters = []string{"a", "b", "a/b", "a/c", "a/b/c", "b/c", "a/", "/a", "a//b", "#", "+", "a/#", "a/+", "+/b", "+/+", "a/b/#", "a/+/c", "+/#", "/+", "+/", "a/+/+", "$SYS/#", "$SYS/+", "$x/a", "c", "a/b/c/d", "a/b/c/#"}

func randSub(rng *rand.Rand, v5 bool, filters []string) mqttc.Sub {
	s := mqttc.Sub{Filter: pick(rng, filters), QoS: byte(rng.IntN(3))}
	if v5 {
		s.NoLocal = chance(rng, 0.25)
		s.RAP = chance(rng, 0.3)
		s.RH = byte(rng.IntN(3))
	}
	return s
}

func clientName(i int) string { return fmt.Sprintf("cl%d", i) }

// phaseEnds returns for each phase index the step of its "end" record.
func phaseEnds(h *sim.History) map[int]int {
	m := map[int]int{}
	for _, r := range h.Recs {
		if r.Kind == "phase" {
			var k int
			if n, _ := fmt.Sscanf(r.Note, "end %d", &k); n == 1 {
				m[k] = r.Step
			}
		}
	}
	return m
}

func viol(prop, clause, sig, f string, a ...any) sim.Violation {
	return sim.Violation{Prop: prop, Clause: clause, Sig: sig, Msg: fmt.Sprintf(f, a...)}
}

// genericOracle reports violations every check shares: recorded run-time violations, scheduler
// trouble, recovered panics inside the broker.
func genericOracle(p *sim.Plan, out *sim.Outcome) []sim.Violation {
	var vs []sim.Violation
	vs = append(vs, out.Viol...)
	for _, pn := range out.Panics {
		first := pn
		if i := indexByte(pn, '\n'); i > 0 {
			first = pn[:i]
		}
		vs = append(vs, viol(p.Prop, "panic", "panic:"+normDigits(first), "broker code panicked (recovered by its own loop): %s", pn))
	}
	return vs
}

func indexByte(s string, c byte) int {
	for i := 0; i < len(s); i++ {
		if s[i] == c {
			return i
		}
	}
	return -1
}

// effResp returns the step by which operation o has certainly been processed by the broker: its own
// acknowledgement, or — for a QoS 0 PUBLISH, which has none — the acknowledgement of the next
// acknowledged operation the same client sent afterwards on the same connection (a connection's
// packets are processed in order), or the end of the phase.
func effResp(h *sim.History, o *sim.OpRec, ends map[int]int) int {
	if o.Resp >= 0 && !(o.Op.K == "publish" && o.Op.QoS == 0) {
		return o.Resp
	}
	if o.Op.K == "publish" && o.Inv >= 0 {
		for _, x := range h.Ops[o.Idx+1:] {
			if x.Phase != o.Phase {
				break
			}
			if x.Op.C == o.Op.C && x.Conn == o.Conn && x.Inv > o.Inv && x.Resp >= 0 && x.Ack != nil {
				return x.Resp
			}
		}
	}
	if e, ok := ends[o.Phase]; ok {
		return e
	}
	return -1
}

// normDigits replaces every run of digits by N (signatures must not depend on incidental numbers).
func normDigits(s string) string {
	var b []byte
	in := false
	for i := 0; i < len(s); i++ {
		if s[i] >= '0' && s[i] <= '9' {
			if !in {
				b = append(b, 'N')
			}
			in = true
			continue
		}
		in = false
		b = append(b, s[i])
	}
	return string(b)
}

// randMsgProps draws MQTT 5 application-message properties for a publish op (client or API). Each property is
// present or absent independently; values include empty strings, binary correlation data and repeated user keys.
func randMsgProps(rng *rand.Rand, op *sim.Op) {
	if chance(rng, 0.5) {
		op.ContentType = sim.Str(pick(rng, []string{"text/x", "", "application/json; charset=utf-8", "ü"}))
	}
	if chance(rng, 0.4) {
		op.RespTopic = sim.Str(pick(rng, []string{"r", "reply/to/" + op.Payload, "a/b"}))
	}
	if chance(rng, 0.4) {
		op.Corr = pick(rng, [][]byte{{}, {0}, {0xff, 0xfe, 0x00, 0x80}, []byte("corr-" + op.Payload)})
	}
	if chance(rng, 0.4) {
		b := byte(rng.IntN(2))
		op.PFmt = &b
	}
	if chance(rng, 0.5) {
		n := 1 + rng.IntN(3)
		for i := 0; i < n; i++ {
			op.UserProps = append(op.UserProps, [2]string{pick(rng, []string{"k", "k", "key2", ""}), pick(rng, []string{"v", "", "value-" + op.Payload})})
		}
	}
}

// msgPropsMismatch compares the application properties of a PUBLISH received by an MQTT 5 client with those of the
// publish op it is a copy of ("" = equal). Payload Format Indicator 0 and absent are the same value; Correlation
// Data of length 0 and absent are told apart only when the publisher sent a non-empty value.
func msgPropsMismatch(op *sim.Op, fromV5 bool, pk *mqttc.Packet) string {
	var want mqttc.Props
	if fromV5 {
		want = mqttc.Props{ContentType: op.ContentType, ResponseTopic: op.RespTopic, CorrelationData: op.Corr, PayloadFormat: op.PFmt, User: op.UserProps}
	}
	got := mqttc.Props{}
	if pk.Props != nil {
		got = *pk.Props
	}
	str := func(p *string) string {
		if p == nil || *p == "" {
			return "<absent>" // gmqtt's Message holds these as plain strings: zero length and absent are one value
		}
		return fmt.Sprintf("%q", *p)
	}
	if str(want.ContentType) != str(got.ContentType) {
		return fmt.Sprintf("content type %s, published %s", str(got.ContentType), str(want.ContentType))
	}
	if str(want.ResponseTopic) != str(got.ResponseTopic) {
		return fmt.Sprintf("response topic %s, published %s", str(got.ResponseTopic), str(want.ResponseTopic))
	}
	if string(want.CorrelationData) != string(got.CorrelationData) {
		return fmt.Sprintf("correlation data %x, published %x", got.CorrelationData, want.CorrelationData)
	}
	pf := func(p *byte) byte {
		if p == nil {
			return 0
		}
		return *p
	}
	if pf(want.PayloadFormat) != pf(got.PayloadFormat) {
		return fmt.Sprintf("payload format indicator %d, published %d", pf(got.PayloadFormat), pf(want.PayloadFormat))
	}
	if fmt.Sprint(want.User) != fmt.Sprint(got.User) && !(len(want.User) == 0 && len(got.User) == 0) {
		return fmt.Sprintf("user properties %q, published %q", got.User, want.User)
	}
	return ""
}

// maybeRedis makes the run's broker use the redis persistence back end (on simredis) with probability prob.
func maybeRedis(rng *rand.Rand, p *sim.Plan, prob float64) bool {
	if !chance(rng, prob) {
		return false
	}
	p.Broker.Persistence = "redis"
	if p.Params == nil {
		p.Params = map[string]string{}
	}
	p.Params["redis_lat_us"] = fmt.Sprint(pick(rng, []int{0, 0, 30, 300}))
	return true
}
