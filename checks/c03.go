package checks

import (
	"fmt"
	"github.com/DrmagicE/gmqtt/server"
	"math/rand/v2"

	"verifsim/mqttc"
	"verifsim/sim"
)

// C03: outbound QoS 1/2 — at-least-once across reconnects, unique ids, bounded window.

func init() {
	register(&Check{ID: "C03", Gen: genC03, Oracle: oracleC03,
		Setup: func(p *sim.Plan) *sim.Setup {
			var start int
			fmt.Sscan(p.Params["pidstart"], &start)
			if start == 0 {
				return nil
			}
			return &sim.Setup{OnConnected: func(w *sim.World, node int, client server.Client) {
				if client.ClientOptions().ClientID != "sub" {
					return
				}
				if k, ok := client.(interface{ VerifSetNextPacketID(id uint16) }); ok {
					k.VerifSetNextPacketID(uint16(start))
					w.Fault("knob.packet_id_near_wrap")
				}
			}}
		},
		Nontrivial: func(p *sim.Plan, out *sim.Outcome) bool {
			n := 0
			for _, r := range out.H.Recs {
				if r.Kind == "rx" && r.C == 0 && r.Pkt.Type == mqttc.PUBLISH && r.Pkt.Dup {
					n++
				}
			}
			return n > 0 || out.Faults["net.cut"] > 0
		}})
}

func genC03(rng *rand.Rand, tier string) *sim.Plan {
	p := NewPlan("C03", rng.Uint64(), rng)
	mi := pick(rng, []int{1, 2, 5, 100})
	p.Broker.MaxInflight = mi
	p.Broker.MaxQueued = pick(rng, []int{1000, 200})
	sv := pick(rng, []byte{4, 5, 5})
	p.Clients = []sim.ClientSpec{{ID: "sub", Ver: sv}, {ID: "pub", Ver: 4}}
	if chance(rng, 0.35) {
		// knob: the subscriber's packet identifier cursor starts just below the wrap-around
		p.Params = map[string]string{"pidstart": fmt.Sprint(pick(rng, []int{65535, 65534, 65533, 65530}))}
	}
	var rm *uint16
	if sv == 5 && chance(rng, 0.7) {
		rm = sim.U16(pick(rng, []uint16{1, 2, 3, 10, 65535}))
	}
	modes := []string{"", "", "never", "hold", "late", "reconly", "err"}
	// carry runs: every connection holds its acknowledgements back and every reconnect pipelines them behind its
	// CONNECT, so that the broker finds acknowledgements of the previous connection while it resumes the session
	carryRun := chance(rng, 0.15)
	if carryRun && p.Broker.MaxInflight < 2 {
		p.Broker.MaxInflight = 5
	}
	connect := func(clean bool) sim.Op {
		op := sim.Op{K: "connect", C: 0, Clean: clean, RecvMax: rm, Ack: pick(rng, modes), AckDup: chance(rng, 0.3)}
		if carryRun {
			op.Ack, op.Clean = "hold", false
		}
		if sv == 5 {
			op.ExpiryS = sim.U32(3600)
		}
		if op.Ack == "late" {
			op.AckDelay = sim.Us(50 + rng.IntN(3000))
		}
		return op
	}
	subq := byte(1 + rng.IntN(2))
	p.Phases = append(p.Phases, sim.Phase{Ops: []sim.Op{
		connect(true), {K: "subscribe", C: 0, Subs: []mqttc.Sub{{Filter: "q/#", QoS: subq}}},
		{K: "connect", C: 1, Clean: true},
	}})
	msg := 0
	rounds := 2 + rng.IntN(5)
	if tier == "thorough" {
		rounds = 2 + rng.IntN(10)
	}
	online := true
	for r := 0; r < rounds; r++ {
		var ph sim.Phase
		n := 1 + rng.IntN(8)
		for k := 0; k < n; k++ {
			msg++
			q := byte(1 + rng.IntN(2))
			if chance(rng, 0.1) {
				q = 0
			}
			ph.Ops = append(ph.Ops, sim.Op{K: "publish", C: 1, Topic: "q/t", QoS: q, Payload: fmt.Sprintf("m%d", msg), NoWait: chance(rng, 0.7)})
		}
		if online {
			switch k := rng.IntN(10); {
			case k < 4:
				ph.Ops = append(ph.Ops, sim.Op{K: "cut", C: 0, Mode: pick(rng, []string{"rst", "fin"}), Delay: sim.Us(rng.IntN(1500))})
				online = false
			case k < 6:
				ph.Ops = append(ph.Ops, sim.Op{K: "release_acks", C: 0, Mode: pick(rng, []string{"", "reverse"}), Ack: pick(rng, modes), Delay: sim.Us(rng.IntN(1500))})
			}
		} else {
			cop := connect(chance(rng, 0.1))
			cop.CarryAcks = carryRun || chance(rng, 0.4)
			ph.Ops = append(ph.Ops, cop)
			online = true
		}
		p.Phases = append(p.Phases, ph)
	}
	// drain: a prompt-acking connection at the end
	var ph sim.Phase
	if online {
		ph.Ops = append(ph.Ops, sim.Op{K: "cut", C: 0})
	}
	fin := connect(false)
	fin.Ack = ""
	ph.Ops = append(ph.Ops, fin)
	p.Phases = append(p.Phases, ph)
	maybeRedis(rng, p, 0.2)
	return p
}

type c03msg struct {
	pid         uint16
	payload     string
	qos         byte
	state       string // pub (seen, no ack sent) | rec (PUBREC sent) | relseen (PUBREL seen, PUBCOMP not sent)
	ackSent     bool   // final ack (PUBACK / PUBCOMP) sent but not yet confirmed by a quiescent point
	ackStep     int
	recSentStep int
	rxConn      int  // connection on which the client last received it
	recConn     int  // connection on which the client last sent PUBREC for it (-1 never)
	carried     bool // its PUBACK was pipelined behind the CONNECT of a new connection: the broker may process it before or after its retransmission
	seq         int  // order of first receipt
}

func oracleC03(p *sim.Plan, out *sim.Outcome) []sim.Violation {
	vs := genericOracle(p, out)
	h := out.H
	limit := 100
	if p.Broker.MaxInflight != 0 {
		limit = p.Broker.MaxInflight
	}
	pubInv := map[string]int{}
	for _, o := range h.Ops {
		if o.Op.K == "publish" && o.Op.C == 1 {
			pubInv[o.Op.Payload] = o.Inv
		}
	}
	cends := connEnds(h)
	// client view of the session
	var unacked []*c03msg // in order of first receipt
	find := func(pid uint16) *c03msg {
		var stale *c03msg
		for _, m := range unacked {
			if m.pid == pid {
				if !m.ackSent {
					return m
				}
				if stale == nil {
					stale = m
				}
			}
		}
		return stale
	}
	remove := func(m *c03msg) {
		for i, x := range unacked {
			if x == m {
				unacked = append(unacked[:i:i], unacked[i+1:]...)
				return
			}
		}
	}
	nseq := 0
	seen := map[string]bool{}
	completed := map[string]bool{}  // final ack sent and confirmed by a quiescent point on a live connection
	var pendingConfirm []*c03msg    // final ack sent, connection still up, waiting for a quiescent point
	maybeAcked := map[string]bool{} // final ack sent but the connection ended before a quiescent point
	curConn, connackStep := -1, -1
	connLimit := limit
	// after a resume: expected retransmission prefix
	var expect []*c03msg
	inPrefix := false
	prefixConn := -1
	connOps := map[int]*sim.OpRec{}
	for _, o := range h.Ops {
		if o.Op.K == "connect" && o.Op.C == 0 {
			connOps[o.Conn] = o
		}
	}
	// A connection on which the client pipelined acknowledgements of the previous connection behind CONNECT:
	// the broker may free and re-use those identifiers before or after its own retransmissions and attributes
	// the client's later acknowledgements of the duplicate copies to whatever holds the identifier then, so
	// identifier, window and order accounting is ambiguous there; what stays decidable is that every other
	// un-acknowledged message is retransmitted and nothing completed is delivered again.
	carryConn := -1 // first connection opened with pipelined acknowledgements; nothing is decidable after it
	for c, o := range connOps {
		if o.Op.CarryAcks && (carryConn < 0 || c < carryConn) {
			carryConn = c
		}
	}
	taintedFrom := -1
	if carryConn >= 0 {
		taintedFrom = carryConn + 1
	}
	relaxed := func(conn int) bool { return carryConn >= 0 && conn >= carryConn }
	tainted := func(conn int) bool { return taintedFrom >= 0 && conn >= taintedFrom }
	checkPrefixDone := func(why string) {
		if !inPrefix {
			return
		}
		inPrefix = false
		for _, m := range expect {
			if m.ackSent { // optional
				continue
			}
			if tainted(prefixConn) {
				continue
			}
			vs = append(vs, viol("C03", "redeliver", "not-redelivered", "after resuming on connection %d, un-acknowledged message %q (pid %d, state %s) was not retransmitted before %s", prefixConn, m.payload, m.pid, m.state, why))
		}
		expect = nil
	}
	for _, r := range h.Recs {
		if r.Kind == "phase" && len(r.Note) > 3 && r.Note[:3] == "end" {
			// quiescent point: acks sent on a connection that is still up have been processed
			if curConn >= 0 {
				if _, ended := cends[curConn]; !ended || cends[curConn] > r.Step {
					for _, m := range pendingConfirm {
						completed[m.payload] = true
					}
					pendingConfirm = nil
					for _, m := range append([]*c03msg{}, unacked...) {
						if m.carried {
							completed[m.payload] = true
							remove(m)
						}
					}
					checkPrefixDone("the system became quiescent")
				}
			}
			continue
		}
		if r.C != 0 {
			continue
		}
		switch r.Kind {
		case "cclose", "bclose":
			if r.Conn == curConn {
				for _, m := range pendingConfirm {
					maybeAcked[m.payload] = true
					// an identifier the broker has handed out again since belongs to a flow it has completed: the
					// acknowledgement was seen
					reused := false
					for _, x := range unacked {
						if x.pid == m.pid && x.seq > m.seq {
							reused = true
						}
					}
					if reused {
						completed[m.payload] = true
						continue
					}
					// the broker may not have seen the ack: it may legitimately retransmit — at its original place
					m.ackSent = true
					at := len(unacked)
					for i, x := range unacked {
						if x.seq > m.seq {
							at = i
							break
						}
					}
					unacked = append(unacked[:at:at], append([]*c03msg{m}, unacked[at:]...)...)
				}
				pendingConfirm = nil
				inPrefix = false
				expect = nil
				curConn = -1
			}
		case "rx":
			pk := r.Pkt
			switch pk.Type {
			case mqttc.CONNACK:
				if pk.Code != 0 {
					continue
				}
				curConn, connackStep = r.Conn, r.Step
				connLimit = limit
				if o := connOps[r.Conn]; o != nil && o.Op.RecvMax != nil && p.Clients[0].Ver == 5 && int(*o.Op.RecvMax) < connLimit {
					connLimit = int(*o.Op.RecvMax)
				}
				if !pk.SessionPresent {
					unacked = nil
					seen = map[string]bool{}
					completed = map[string]bool{}
					maybeAcked = map[string]bool{}
					expect = nil
					inPrefix = false
				} else {
					expect = append([]*c03msg{}, unacked...)
					inPrefix = len(expect) > 0
					prefixConn = r.Conn
				}
			case mqttc.PUBLISH:
				pl := string(pk.Payload)
				if pk.QoS == 0 {
					continue
				}
				if pk.PID == 0 {
					vs = append(vs, viol("C03", "ids", "zero-id", "QoS %d PUBLISH %q with packet identifier 0", pk.QoS, pl))
				}
				if completed[pl] && !tainted(r.Conn) {
					vs = append(vs, viol("C03", "until_acked", "resent-after-ack", "message %q (pid %d) was delivered again although the client had completed its acknowledgement on a connection that stayed up", pl, pk.PID))
				}
				m := find(pk.PID)
				if inPrefix && relaxed(r.Conn) {
					// order is not decidable here (see relaxed); retransmissions are ticked off in any order and what
					// is left when the system becomes quiescent was not retransmitted
					for i, e := range expect {
						if e.pid == pk.PID && e.payload == pl {
							expect = append(expect[:i:i], expect[i+1:]...)
							if m != nil && !m.carried {
								m.ackSent = false
							}
							break
						}
					}
				} else if inPrefix {
					// must be the next expected retransmission (optional ones may be skipped)
					matched := false
					for len(expect) > 0 {
						e := expect[0]
						if e.pid == pk.PID && e.payload == pl {
							if e.state == "relseen" && !e.ackSent {
								vs = append(vs, viol("C03", "redeliver", "publish-instead-of-pubrel", "resume on connection %d: %q (pid %d) retransmitted as PUBLISH although the broker had already sent PUBREL for it", r.Conn, pl, pk.PID))
							}
							if !pk.Dup {
								vs = append(vs, viol("C03", "redeliver", "dup0-on-retransmit", "resume on connection %d: retransmission of %q (pid %d) has DUP=0", r.Conn, pl, pk.PID))
							}
							expect = expect[1:]
							matched = true
							break
						}
						if e.ackSent {
							expect = expect[1:]
							continue
						}
						break
					}
					if matched {
						if m != nil && !m.carried {
							m.ackSent = false
						}
					} else if len(expect) > 0 {
						e := expect[0]
						sig := "order"
						if !pk.Dup {
							sig = "new-before-old"
						}
						if !relaxed(r.Conn) {
							vs = append(vs, viol("C03", "redeliver", sig, "resume on connection %d: received PUBLISH %q pid %d dup=%v while un-acknowledged %q (pid %d, %s) had to be retransmitted first", r.Conn, pl, pk.PID, pk.Dup, e.payload, e.pid, e.state))
						}
						expect = nil
						inPrefix = false
					} else {
						inPrefix = pk.Dup // unseen in-flight messages may still follow with DUP=1
					}
				}
				if pk.Dup && !seen[pl] {
					if inv, ok := pubInv[pl]; ok && inv > connackStep {
						vs = append(vs, viol("C03", "dup0_first", "dup1-first", "%q was published after connection %d was acknowledged but its first transmission has DUP=1", pl, r.Conn))
					}
				}
				if m != nil && m.payload != pl {
					if m.ackSent {
						// the old message's ack was in flight when the connection died; the id may have been freed
						for m != nil && m.ackSent && m.payload != pl {
							remove(m)
							m = find(pk.PID)
						}
						if m != nil && m.payload != pl {
							if !relaxed(r.Conn) {
								vs = append(vs, viol("C03", "ids", "id-reuse", "packet identifier %d assigned to %q while %q (state %s) still awaits its acknowledgement", pk.PID, pl, m.payload, m.state))
							}
							remove(m)
							m = nil
						}
					} else {
						if !relaxed(r.Conn) {
							vs = append(vs, viol("C03", "ids", "id-reuse", "packet identifier %d assigned to %q while %q (state %s) still awaits its acknowledgement", pk.PID, pl, m.payload, m.state))
						}
						remove(m)
						m = nil
					}
				}
				if m == nil {
					nseq++
					m = &c03msg{pid: pk.PID, payload: pl, qos: pk.QoS, state: "pub", recConn: -1, seq: nseq}
					unacked = append(unacked, m)
				}
				if !m.carried {
					m.rxConn = r.Conn
				}
				seen[pl] = true
				// window: QoS>0 PUBLISH whose final ack the client has not sent
				n := 0
				desc := ""
				for _, x := range unacked {
					if !x.ackSent {
						n++
						desc += fmt.Sprintf(" %s(pid %d,%s)", x.payload, x.pid, x.state)
					}
				}
				if n > connLimit && !relaxed(r.Conn) {
					vs = append(vs, viol("C03", "window", "window", "%d QoS>0 PUBLISH packets un-acknowledged by the client on connection %d at step %d, limit min(ReceiveMaximum, max_inflight) = %d:%s", n, r.Conn, r.Step, connLimit, desc))
				}
			case mqttc.PUBREL:
				m := find(pk.PID)
				if inPrefix && m != nil && m.state == "rec" && m.recConn == r.Conn {
					// the answer to a PUBREC the client sent on this connection (a fast client's PUBREC is answered
					// while the retransmissions are still being written): not part of the retransmission prefix
					for i, e := range expect {
						if e == m {
							expect = append(expect[:i:i], expect[i+1:]...)
							break
						}
					}
				} else if inPrefix && relaxed(r.Conn) {
					for i, e := range expect {
						if e.pid == pk.PID {
							expect = append(expect[:i:i], expect[i+1:]...)
							break
						}
					}
				} else if inPrefix {
					for len(expect) > 0 {
						e := expect[0]
						if e.pid == pk.PID && e.ackSent && (e.qos != 2 || e.state == "pub") {
							// an entry whose final acknowledgement may have been lost, under an identifier that has been
							// re-used since: a PUBREL cannot be its retransmission, it belongs to a later entry
							expect = expect[1:]
							continue
						}
						if e.pid == pk.PID {
							if e.state == "pub" && !e.ackSent {
								vs = append(vs, viol("C03", "redeliver", "pubrel-instead-of-publish", "resume on connection %d: PUBREL %d although the client never sent PUBREC for %q", r.Conn, pk.PID, e.payload))
							}
							expect = expect[1:]
							break
						}
						if e.ackSent {
							expect = expect[1:]
							continue
						}
						if !relaxed(r.Conn) {
							vs = append(vs, viol("C03", "redeliver", "order", "resume on connection %d: PUBREL %d received while %q (pid %d) had to be retransmitted first", r.Conn, pk.PID, e.payload, e.pid))
						}
						expect = nil
						inPrefix = false
						break
					}
				}
				if m != nil && m.state != "pub" {
					m.state = "relseen"
				}
			}
		case "tx":
			pk := r.Pkt
			switch pk.Type {
			case mqttc.PUBACK, mqttc.PUBCOMP:
				if m := find(pk.PID); m != nil && m.rxConn != r.Conn && pk.Type == mqttc.PUBACK {
					// sent behind CONNECT, before the CONNACK: the retransmission of this message is optional and
					// its identifier may be given to another message at any moment of this connection
					m.ackSent = true
					m.carried = true
					m.ackStep = r.Step

				} else if m != nil {
					remove(m)
					m.ackSent = true
					m.ackStep = r.Step
					pendingConfirm = append(pendingConfirm, m)
				}
			case mqttc.PUBREC:
				if m := find(pk.PID); m != nil {
					if pk.Code >= 0x80 {
						remove(m)
						m.ackSent = true
						pendingConfirm = append(pendingConfirm, m)
					} else {
						m.state = "rec"
						m.recSentStep = r.Step
						m.recConn = r.Conn
					}
				}
			}
		}
	}
	return vs
}
