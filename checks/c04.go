package checks

import (
	"context"
	"errors"
	"fmt"
	"math/rand/v2"
	"sort"
	"strings"

	"github.com/DrmagicE/gmqtt/pkg/codes"
	"github.com/DrmagicE/gmqtt/server"

	"verifsim/mqttc"
	"verifsim/sim"
)

// C04: inbound QoS 2 is exactly-once; every QoS>0 packet gets its matching ack.

func init() {
	register(&Check{ID: "C04", Gen: genC04, Oracle: oracleC04, Setup: c04setup,
		Nontrivial: func(p *sim.Plan, out *sim.Outcome) bool {
			return out.Faults["client.dup_publish"]+out.Faults["client.retransmit_publish"]+out.Faults["net.cut"] > 0
		}})
}

// c04setup installs an OnMsgArrived hook that refuses the messages whose payload says so ("rej<code>-…"): the
// refused PUBLISH is answered with a failing PUBACK / PUBREC, is forwarded to nobody, and a QoS 2 identifier it
// used is free again at once.
func c04setup(p *sim.Plan) *sim.Setup {
	return &sim.Setup{EditHooks: func(w *sim.World, n int, h *server.Hooks) {
		h.OnMsgArrived = func(ctx context.Context, client server.Client, req *server.MsgArrivedRequest) error {
			pl := string(req.Publish.Payload)
			switch {
			case strings.HasPrefix(pl, "rej80-"):
				return errors.New("refused by the hook") // a plain error: reason code 0x80
			case strings.HasPrefix(pl, "rej80c-"):
				return codes.NewError(codes.UnspecifiedError)
			case strings.HasPrefix(pl, "rej87-"):
				return codes.NewError(codes.NotAuthorized)
			case strings.HasPrefix(pl, "rej97-"):
				return codes.NewError(codes.QuotaExceeded)
			}
			return nil
		}
	}}
}

func genC04(rng *rand.Rand, tier string) *sim.Plan {
	p := NewPlan("C04", rng.Uint64(), rng)
	np := 1 + rng.IntN(3)
	p.Clients = append(p.Clients, sim.ClientSpec{ID: "sub", Ver: pick(rng, []byte{4, 5})})
	for i := 0; i < np; i++ {
		p.Clients = append(p.Clients, sim.ClientSpec{ID: fmt.Sprintf("pub%d", i), Ver: pick(rng, []byte{4, 5})})
	}
	conn := func(i int, clean bool) sim.Op {
		op := sim.Op{K: "connect", C: i, Clean: clean}
		if p.Clients[i].Ver == 5 {
			op.ExpiryS = sim.U32(3600)
		}
		return op
	}
	ph := sim.Phase{Ops: []sim.Op{conn(0, true), {K: "subscribe", C: 0, Subs: []mqttc.Sub{{Filter: "t/#", QoS: 2}}}}}
	for i := 1; i <= np; i++ {
		ph.Ops = append(ph.Ops, conn(i, chance(rng, 0.5)))
	}
	p.Phases = append(p.Phases, ph)
	msg := 0
	rounds := 2 + rng.IntN(4)
	if tier == "thorough" {
		rounds = 2 + rng.IntN(8)
	}
	for r := 0; r < rounds; r++ {
		var ph sim.Phase
		for i := 1; i <= np; i++ {
			if !chance(rng, 0.8) {
				continue
			}
			kind := rng.IntN(10)
			topic := fmt.Sprintf("t/%d", i)
			newMsg := func(q byte) sim.Op {
				msg++
				return sim.Op{K: "publish", C: i, Topic: topic, QoS: q, Payload: fmt.Sprintf("x%d", msg)}
			}
			switch {
			case kind < 3: // sequential flows with explicit, reused packet ids
				pid := uint16(1 + rng.IntN(3))
				for k := 0; k < 1+rng.IntN(4); k++ {
					op := newMsg(2)
					op.PID = 1000 + pid
					op.Repeat = rng.IntN(3)
					if p.Clients[i].Ver == 5 && chance(rng, 0.25) {
						// refused by the hook: the identifier is free again, the next flow re-uses it
						op.Payload = pick(rng, []string{"rej80-", "rej80c-", "rej87-", "rej97-"}) + op.Payload
						op.Repeat = 0
					}
					ph.Ops = append(ph.Ops, op)
					if chance(rng, 0.3) {
						ph.Ops = append(ph.Ops, newMsg(byte(rng.IntN(2))))
					}
				}
			case kind < 5: // pipelined flows, duplicates, withheld PUBREL released later with duplicates
				var held []uint16
				for k := 0; k < 1+rng.IntN(4); k++ {
					op := newMsg(2)
					op.PID = uint16(2000 + r*10 + k)
					op.Repeat = rng.IntN(4)
					op.NoWait = true
					if chance(rng, 0.5) {
						op.HoldRel = true
						held = append(held, op.PID)
					}
					ph.Ops = append(ph.Ops, op)
				}
				if len(held) > 0 {
					ph.Ops = append(ph.Ops, sim.Op{K: "ping", C: i})
				}
				for _, pid := range held {
					// a retransmission of the PUBLISH while its PUBREL is withheld
					if chance(rng, 0.5) {
						ph.Ops = append(ph.Ops, sim.Op{K: "retransmit", C: i})
					}
					ph.Ops = append(ph.Ops, sim.Op{K: "pubrel", C: i, PID: pid, Repeat: rng.IntN(2)})
				}
			default: // cut in mid flight, resume (or clean start), retransmit
				n := 1 + rng.IntN(3)
				for k := 0; k < n; k++ {
					op := newMsg(byte(1 + rng.IntN(2)))
					op.NoWait = true
					op.Repeat = rng.IntN(2)
					ph.Ops = append(ph.Ops, op)
				}
				ph.Ops = append(ph.Ops, sim.Op{K: "cut", C: i, Mode: pick(rng, []string{"rst", "fin"}), Delay: sim.Us(rng.IntN(400))})
				ph.Ops = append(ph.Ops, conn(i, chance(rng, 0.25)))
				ph.Ops = append(ph.Ops, sim.Op{K: "retransmit", C: i})
				ph.Ops = append(ph.Ops, sim.Op{K: "ping", C: i})
			}
		}
		p.Phases = append(p.Phases, ph)
		if chance(rng, 0.15) {
			// sessions that end by expiry while a QoS 2 identifier is still awaiting PUBREL: the next session of the
			// client id (Clean Start 0, Session Present 0) starts from nothing, the identifier carries a new message
			var a, b sim.Phase
			for i := 1; i <= np; i++ {
				if !chance(rng, 0.7) {
					continue
				}
				pid := uint16(3000 + r)
				op := sim.Op{K: "publish", C: i, Topic: fmt.Sprintf("t/%d", i), QoS: 2, PID: pid, HoldRel: true}
				msg++
				op.Payload = fmt.Sprintf("x%d", msg)
				a.Ops = append(a.Ops, op, sim.Op{K: "cut", C: i})
				msg++
				b.Ops = append(b.Ops, conn(i, false), sim.Op{K: "publish", C: i, Topic: fmt.Sprintf("t/%d", i), QoS: 2, PID: pid, Payload: fmt.Sprintf("x%d", msg)})
			}
			if len(a.Ops) > 0 {
				a.Advance = sim.Sec(3 * 3600) // beyond the configured (2 h) and every requested expiry
				p.Phases = append(p.Phases, a, b)
			}
		}
	}
	maybeRedis(rng, p, 0.2)
	return p
}

// connEnd returns for each connection the step at which it ended (client or broker close), or a
// huge number if it never did.
func connEnds(h *sim.History) map[int]int {
	m := map[int]int{}
	for _, r := range h.Recs {
		if r.Kind == "cclose" || r.Kind == "bclose" {
			if _, ok := m[r.Conn]; !ok {
				m[r.Conn] = r.Step
			}
		}
	}
	return m
}

func oracleC04(p *sim.Plan, out *sim.Outcome) []sim.Violation {
	vs := genericOracle(p, out)
	h := out.H
	ends := connEnds(h)
	var phaseEndSteps []int
	for _, r := range h.Recs {
		if r.Kind == "phase" && len(r.Note) > 3 && r.Note[:3] == "end" {
			phaseEndSteps = append(phaseEndSteps, r.Step)
		}
	}
	nextPhaseEnd := func(s int) int {
		for _, e := range phaseEndSteps {
			if e > s {
				return e
			}
		}
		return 1 << 60
	}
	endOf := func(conn int) int {
		if e, ok := ends[conn]; ok {
			return e
		}
		return 1 << 60
	}
	// premise of the delivery clauses: the observing subscriber (client 0) was subscribed before the message was
	// sent and stayed connected (the minimiser may not remove it)
	subStep := 1 << 60
	for _, o := range h.Ops {
		if o.Op.K == "subscribe" && o.Op.C == 0 && o.Ack != nil && len(o.Ack.Codes) > 0 && o.Ack.Codes[0] < 0x80 && o.Resp < subStep {
			subStep = o.Resp
		}
	}
	for _, r := range h.Recs {
		if (r.Kind == "cclose" || r.Kind == "bclose") && r.C == 0 && !finalPhase(h, r.Step) {
			subStep = 1 << 60
		}
	}
	firstTx := map[string]int{}
	for _, r := range h.Recs {
		if r.Kind == "tx" && r.Pkt != nil && r.Pkt.Type == mqttc.PUBLISH {
			if _, ok := firstTx[string(r.Pkt.Payload)]; !ok {
				firstTx[string(r.Pkt.Payload)] = r.Step
			}
		}
	}
	// delivered counts at the subscriber
	delivered := map[string]int{}
	for _, r := range h.Recs {
		if r.Kind == "rx" && r.C == 0 && r.Pkt.Type == mqttc.PUBLISH {
			delivered[string(r.Pkt.Payload)]++
			if r.Pkt.Dup {
				vs = append(vs, viol("C04", "once", "dup-to-subscriber", "subscriber that never disconnected received %q with DUP=1", r.Pkt.Payload))
			}
		}
	}
	for ci := 1; ci < len(p.Clients); ci++ {
		epoch := 0
		connEpoch := map[int]int{}
		type key struct {
			payload string
			epoch   int
		}
		sent := map[key]bool{}
		def := map[key]bool{}
		lastPayload := map[[2]int]string{} // (conn,pid) -> payload of the last QoS2 PUBLISH sent
		openFlow := map[[2]int]string{}    // (epoch,pid) -> payload of the QoS 2 flow the client has not released yet
		ambiguous := map[string]bool{}
		payloadQoS := map[string]byte{}
		// ack accounting
		type ak struct {
			conn int
			typ  byte
			pid  uint16
		}
		mustAck := map[ak]int{}
		mayAck := map[ak]int{}
		gotAck := map[ak]int{}
		for _, r := range h.Recs {
			if r.C != ci || r.Pkt == nil {
				continue
			}
			switch r.Kind {
			case "rx":
				switch r.Pkt.Type {
				case mqttc.CONNACK:
					if !r.Pkt.SessionPresent {
						epoch++
					}
					connEpoch[r.Conn] = epoch
				case mqttc.PUBREC:
					gotAck[ak{r.Conn, mqttc.PUBREC, r.Pkt.PID}]++
					if r.Pkt.Code >= 0x80 {
						delete(openFlow, [2]int{connEpoch[r.Conn], int(r.Pkt.PID)}) // refused: the flow is over, the identifier is free
					}
					if pl, ok := lastPayload[[2]int{r.Conn, int(r.Pkt.PID)}]; ok && r.Pkt.Code < 0x80 {
						def[key{pl, connEpoch[r.Conn]}] = true
					}
				case mqttc.PUBACK, mqttc.PUBCOMP:
					gotAck[ak{r.Conn, r.Pkt.Type, r.Pkt.PID}]++
					if r.Pkt.Type == mqttc.PUBACK && r.Pkt.Code < 0x80 {
						if pl, ok := lastPayload[[2]int{r.Conn, -int(r.Pkt.PID)}]; ok {
							def[key{pl, connEpoch[r.Conn]}] = true
						}
					}
				}
			case "tx":
				var want byte
				switch {
				case r.Pkt.Type == mqttc.PUBLISH && r.Pkt.QoS == 1:
					want = mqttc.PUBACK
					lastPayload[[2]int{r.Conn, -int(r.Pkt.PID)}] = string(r.Pkt.Payload)
				case r.Pkt.Type == mqttc.PUBLISH && r.Pkt.QoS == 2:
					want = mqttc.PUBREC
					lastPayload[[2]int{r.Conn, int(r.Pkt.PID)}] = string(r.Pkt.Payload)
					// a different message under an identifier whose flow the client has not released in this session
					// is the client's protocol error (the broker rightly takes it for a retransmission): not judged
					ok := [2]int{connEpoch[r.Conn], int(r.Pkt.PID)}
					if prev, open := openFlow[ok]; open && prev != string(r.Pkt.Payload) {
						ambiguous[string(r.Pkt.Payload)] = true
					} else {
						openFlow[ok] = string(r.Pkt.Payload)
					}
				case r.Pkt.Type == mqttc.PUBREL:
					want = mqttc.PUBCOMP
					delete(openFlow, [2]int{connEpoch[r.Conn], int(r.Pkt.PID)})
				}
				if r.Pkt.Type == mqttc.PUBLISH {
					sent[key{string(r.Pkt.Payload), connEpoch[r.Conn]}] = true
					payloadQoS[string(r.Pkt.Payload)] = r.Pkt.QoS
				}
				if want != 0 {
					k := ak{r.Conn, want, r.Pkt.PID}
					mayAck[k]++
					if endOf(r.Conn) > nextPhaseEnd(r.Step) {
						mustAck[k]++
					}
				}
			}
		}
		// C04.acks
		var aks []ak
		for k := range mayAck {
			aks = append(aks, k)
		}
		for k := range gotAck {
			if _, ok := mayAck[k]; !ok {
				aks = append(aks, k)
			}
		}
		sort.Slice(aks, func(a, b int) bool {
			if aks[a].conn != aks[b].conn {
				return aks[a].conn < aks[b].conn
			}
			if aks[a].typ != aks[b].typ {
				return aks[a].typ < aks[b].typ
			}
			return aks[a].pid < aks[b].pid
		})
		for _, k := range aks {
			g := gotAck[k]
			if g < mustAck[k] {
				vs = append(vs, viol("C04", "acks", "missing-"+mqttc.TypeName(k.typ), "client %d conn %d: %d packets with id %d require a %s, only %d received", ci, k.conn, mustAck[k], k.pid, mqttc.TypeName(k.typ), g))
			}
			if g > mayAck[k] {
				vs = append(vs, viol("C04", "acks", "extra-"+mqttc.TypeName(k.typ), "client %d conn %d: %d %s with id %d for %d packets sent", ci, k.conn, g, mqttc.TypeName(k.typ), k.pid, mayAck[k]))
			}
		}
		// C04.once
		lo := map[string]int{}
		hi := map[string]int{}
		for k := range sent {
			hi[k.payload]++
			if def[k] {
				lo[k.payload]++
			}
		}
		var pls []string
		for pl := range hi {
			pls = append(pls, pl)
		}
		sort.Strings(pls)
		for _, pl := range pls {
			n := delivered[pl]
			q := payloadQoS[pl]
			if firstTx[pl] <= subStep || ambiguous[pl] {
				continue // the subscriber was not (yet) there to observe / the client broke the protocol
			}
			if strings.HasPrefix(pl, "rej") {
				if n > 0 {
					vs = append(vs, viol("C04", "once", "refused-forwarded", "message %q, refused by the OnMsgArrived hook, was forwarded %d times", pl, n))
				}
				continue
			}
			if q == 0 {
				continue
			}
			if q == 1 {
				// QoS 1 is at-least-once: only the lower bound applies
				if n < lo[pl] {
					vs = append(vs, viol("C04", "once", "q1-lost", "QoS 1 message %q acknowledged in %d session epoch(s) but delivered %d times", pl, lo[pl], n))
				}
				continue
			}
			if n < lo[pl] {
				vs = append(vs, viol("C04", "once", "q2-lost", "QoS 2 message %q from client %d was acknowledged (PUBREC) in %d session epoch(s) but forwarded %d times", pl, ci, lo[pl], n))
			}
			if n > hi[pl] {
				vs = append(vs, viol("C04", "once", "q2-duplicated", "QoS 2 message %q from client %d was sent in %d session epoch(s) but forwarded %d times", pl, ci, hi[pl], n))
			}
		}
	}
	return vs
}

// finalPhase reports whether step lies in the end-of-run sequence (after the "final" record).
func finalPhase(h *sim.History, step int) bool {
	for _, r := range h.Recs {
		if r.Kind == "phase" && r.Note == "final" {
			return step >= r.Step
		}
	}
	return false
}
