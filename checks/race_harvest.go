package checks

import (
	"fmt"
	"os"
	"path/filepath"
	"sort"
	"strings"

	"verifsim/sim"
	"verifsim/simrt"
)

// Race instrument (C15.race): the checks binary built with -race runs the same seeded, controlled
// schedules; the simulator's own synchronisation is hidden from the detector and the virtual sync
// primitives carry the happens-before edges of the real ones (see simrt/race_on.go, vsync), so a
// report means: two accesses of gmqtt code to the same memory, at least one a write, not ordered by
// any synchronisation gmqtt itself performs. Reports are read from the GORACE log after every run.

var raceLogOff = map[string]int64{}

// raceLogCut: size of each log file when the run's teardown began; what is reported after that point is the
// teardown's own concurrency (all remaining tasks unwind at once, locks are no longer honoured), not the system's.
var raceLogCut = map[string]int64{}
var raceCutTaken bool

func init() {
	sim.BeforeTeardown = func() {
		if !simrt.RaceOn {
			return
		}
		prefix := os.Getenv("VERIF_RACE_LOG")
		if prefix == "" {
			return
		}
		files, _ := filepath.Glob(prefix + "*")
		for _, f := range files {
			if st, err := os.Stat(f); err == nil {
				raceLogCut[f] = st.Size()
			}
		}
		raceCutTaken = true
	}
}

type raceAccess struct {
	kind   string
	frames [][2]string // function, file:line
}

// firstReal returns the frame that performed the access: Go runtime / standard library helpers (map
// access, slice copy ...) and the rewriter's SortedKeys shim are attributed to their caller; an access made
// by any other simulator code is the simulator's own.
func (a raceAccess) firstReal() (fn, file string) {
	for _, f := range a.frames {
		file := f[1]
		if strings.Contains(file, "/veriftools/go") || strings.Contains(file, "/go/src/") {
			continue
		}
		if strings.Contains(f[0], "simrt.SortedKeys") {
			continue
		}
		return f[0], file
	}
	return "", ""
}

func parseRaceReports(prop, text string) []sim.Violation {
	var vs []sim.Violation
	for _, blk := range strings.Split(text, "==================") {
		if !strings.Contains(blk, "WARNING: DATA RACE") {
			continue
		}
		var acc []raceAccess
		lines := strings.Split(blk, "\n")
		for i := 0; i < len(lines); i++ {
			l := strings.TrimSpace(lines[i])
			isAcc := false
			for _, p := range []string{"Write at ", "Read at ", "Previous write at ", "Previous read at ", "Atomic write at ", "Atomic read at ", "Previous atomic write at ", "Previous atomic read at "} {
				if strings.HasPrefix(l, p) {
					isAcc = true
				}
			}
			if !isAcc {
				continue
			}
			a := raceAccess{kind: l}
			for j := i + 1; j+1 < len(lines); j += 2 {
				fn := strings.TrimSpace(lines[j])
				if fn == "" {
					break
				}
				file := strings.TrimSpace(lines[j+1])
				if k := strings.Index(file, " +0x"); k > 0 {
					file = file[:k]
				}
				a.frames = append(a.frames, [2]string{fn, file})
			}
			acc = append(acc, a)
		}
		if len(acc) < 2 {
			continue
		}
		f1, p1 := acc[0].firstReal()
		f2, p2 := acc[1].firstReal()
		if !strings.Contains(p1, "/repo/") || !strings.Contains(p2, "/repo/") || strings.Contains(p1, "zz_verif_") || strings.Contains(p2, "zz_verif_") {
			continue // at least one side is simulator / check code (overlay-added accessors included): not a statement about gmqtt
		}
		if raceArtefact(f1) || raceArtefact(f2) {
			continue
		}
		fs := []string{trimFn(f1), trimFn(f2)}
		sort.Strings(fs)
		short := func(p string) string { return strings.TrimPrefix(p, "/repo/") }
		msg := fmt.Sprintf("data race in gmqtt (no happens-before between the two accesses): %s in %s at %s  vs  %s in %s at %s", strings.SplitN(acc[0].kind, " at ", 2)[0], f1, short(p1), strings.ToLower(strings.SplitN(acc[1].kind, " at ", 2)[0]), f2, short(p2))
		vs = append(vs, viol(prop, "race", "race:"+fs[0]+"<>"+fs[1], "%s", msg))
	}
	return vs
}

// raceArtefact: accesses that can only collide because the simulation runs several broker processes in one
// address space. federation.New assigns the package-level logger (every other write of New goes to the
// object it is about to return); two plugin instances never share a process outside the simulation.
func raceArtefact(fn string) bool {
	return strings.HasSuffix(strings.TrimSuffix(fn, "()"), "plugin/federation.New")
}

func trimFn(f string) string {
	f = strings.TrimSuffix(f, "()")
	f = strings.TrimPrefix(f, "github.com/DrmagicE/gmqtt/")
	return f
}

// harvestRaces returns the gmqtt data races reported by the race detector since the last call.
func harvestRaces(prop string) []sim.Violation {
	if !simrt.RaceOn {
		return nil
	}
	prefix := os.Getenv("VERIF_RACE_LOG")
	if prefix == "" {
		return nil
	}
	files, _ := filepath.Glob(prefix + "*")
	var vs []sim.Violation
	defer func() { raceCutTaken = false }()
	for _, f := range files {
		b, err := os.ReadFile(f)
		if err != nil {
			continue
		}
		off := raceLogOff[f]
		if int64(len(b)) <= off {
			continue
		}
		raceLogOff[f] = int64(len(b))
		end := int64(len(b))
		if cut, ok := raceLogCut[f]; ok && cut >= off && cut < end {
			end = cut
		} else if !ok && raceCutTaken {
			end = off // the file did not exist when the teardown began
		}
		delete(raceLogCut, f)
		vs = append(vs, parseRaceReports(prop, string(b[off:end]))...)
	}
	return vs
}
