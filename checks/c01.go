package checks

import (
	"fmt"
	"math/rand/v2"
	"sort"
	"strings"

	"verifsim/model"
	"verifsim/mqttc"
	"verifsim/sim"
)

// C01: PUBLISH reaches exactly the matching subscribers, at the right QoS, in order.

func init() {
	register(&Check{ID: "C01", Gen: genC01, Oracle: oracleC01,
		Nontrivial: func(p *sim.Plan, out *sim.Outcome) bool {
			n := 0
			for _, r := range out.H.Recs {
				if r.Kind == "rx" && r.Pkt.Type == mqttc.PUBLISH {
					n++
				}
			}
			return n >= 2 && out.Switches > 0
		}})
}

func genC01(rng *rand.Rand, tier string) *sim.Plan {
	seed := rng.Uint64()
	p := NewPlan("C01", seed, rng)
	p.Broker.DeliveryMode = pick(rng, []string{"overlap", "onlyonce"})
	nc := 2 + rng.IntN(4)
	if tier == "thorough" {
		nc = 2 + rng.IntN(7)
	}
	for i := 0; i < nc; i++ {
		p.Clients = append(p.Clients, sim.ClientSpec{ID: clientName(i), Ver: pick(rng, []byte{4, 5, 5})})
	}
	// a per-run subset of the universe keeps overlaps likely
	nf := 3 + rng.IntN(6)
	var filters, names []string
	for i := 0; i < nf; i++ {
		filters = append(filters, pick(rng, topicFilters))
	}
	for i := 0; i < 2+rng.IntN(4); i++ {
		names = append(names, pick(rng, topicNames))
	}
	// phase 0: everybody connects (concurrently)
	var ph sim.Phase
	for i := range p.Clients {
		ph.Ops = append(ph.Ops, sim.Op{K: "connect", C: i, Clean: true, KeepAlive: 0})
	}
	p.Phases = append(p.Phases, ph)
	msg := 0
	subPhase := func(prob float64) sim.Phase {
		var ph sim.Phase
		if chance(rng, 0.2*prob) {
			// all subscriptions of one client removed at once (what the end of a session does to the index)
			ph.Ops = append(ph.Ops, sim.Op{K: "api_unsuball", C: -9, Target: clientName(rng.IntN(len(p.Clients)))})
		}
		for i, c := range p.Clients {
			n := 0
			for chance(rng, prob) && n < 3 {
				n++
				if chance(rng, 0.25) {
					ph.Ops = append(ph.Ops, sim.Op{K: "unsubscribe", C: i, Filters: []string{pick(rng, filters)}})
					continue
				}
				op := sim.Op{K: "subscribe", C: i}
				seen := map[string]bool{}
				for k := 0; k < 1+rng.IntN(2); k++ {
					s := randSub(rng, c.Ver == 5, filters)
					if seen[s.Filter] {
						continue
					}
					seen[s.Filter] = true
					op.Subs = append(op.Subs, s)
				}
				if c.Ver == 5 && chance(rng, 0.5) {
					op.SubID = uint32(1 + rng.IntN(5))
				}
				ph.Ops = append(ph.Ops, op)
			}
		}
		return ph
	}
	aliasOf := map[int]map[uint16]string{} // publisher -> its inbound alias table (one connection per client in this check)
	pubPhase := func(mixSubs bool) sim.Phase {
		var ph sim.Phase
		for i, c := range p.Clients {
			if !chance(rng, 0.7) {
				continue
			}
			n := 1 + rng.IntN(5)
			pipeline := chance(rng, 0.5)
			for k := 0; k < n; k++ {
				msg++
				op := sim.Op{K: "publish", C: i, Topic: pick(rng, names), QoS: byte(rng.IntN(3)), Payload: fmt.Sprintf("m%d", msg), NoWait: pipeline}
				op.Retain = chance(rng, 0.15)
				if c.Ver == 5 && chance(rng, 0.4) {
					randMsgProps(rng, &op)
				}
				if c.Ver == 5 && chance(rng, 0.3) {
					// inbound topic aliases: bind, use alias-only, re-bind to another topic (the message goes where the
					// alias points NOW)
					a := uint16(1 + rng.IntN(3))
					if aliasOf[i] == nil {
						aliasOf[i] = map[uint16]string{}
					}
					op.Alias = sim.U16(a)
					if t, ok := aliasOf[i][a]; ok && chance(rng, 0.5) {
						op.Topic, op.NoTopic = t, true
					} else {
						aliasOf[i][a] = op.Topic
					}
				}
				if chance(rng, 0.1) {
					op.PadTo = 1000 + rng.IntN(3000)
				}
				ph.Ops = append(ph.Ops, op)
			}
		}
		for a := 0; a < rng.IntN(3); a++ {
			for k := 0; k < 1+rng.IntN(3); k++ {
				msg++
				op := sim.Op{K: "api_publish", C: -1 - a, Topic: pick(rng, names), QoS: byte(rng.IntN(3)), Payload: fmt.Sprintf("m%d", msg), Retain: chance(rng, 0.1)}
				if chance(rng, 0.4) {
					randMsgProps(rng, &op)
				}
				ph.Ops = append(ph.Ops, op)
			}
		}
		if mixSubs {
			s := subPhase(0.3)
			ph.Ops = append(ph.Ops, s.Ops...)
		}
		return ph
	}
	p.Phases = append(p.Phases, subPhase(0.8))
	rounds := 1 + rng.IntN(3)
	for r := 0; r < rounds; r++ {
		p.Phases = append(p.Phases, pubPhase(chance(rng, 0.3)))
		if r+1 < rounds {
			p.Phases = append(p.Phases, subPhase(0.4))
		}
	}
	maybeRedis(rng, p, 0.2)
	return p
}

type subVal struct {
	sub     mqttc.Sub
	granted byte
	id      uint32
}

type copyAttr struct {
	qos    byte
	retain bool
	ids    string // sorted subscription ids
}

func idsKey(ids []uint32) string {
	if len(ids) == 0 {
		return ""
	}
	s := append([]uint32{}, ids...)
	sort.Slice(s, func(a, b int) bool { return s[a] < s[b] })
	return fmt.Sprint(s)
}

// subTimelines builds, per client and filter, the establish/revoke history from the acknowledged
// SUBSCRIBE / UNSUBSCRIBE operations (and API subscription calls addressed to that client id).
func subTimelines(p *sim.Plan, h *sim.History) map[int]map[string][]model.Change {
	tl := map[int]map[string][]model.Change{}
	add := func(c int, f string, ch model.Change) {
		if tl[c] == nil {
			tl[c] = map[string][]model.Change{}
		}
		tl[c][f] = append(tl[c][f], ch)
	}
	cidx := map[string]int{}
	for i, c := range p.Clients {
		cidx[c.ID] = i
	}
	for _, o := range h.Ops {
		if o.Inv < 0 {
			continue
		}
		sp := model.Span{Inv: o.Inv, Resp: o.Resp}
		switch o.Op.K {
		case "subscribe":
			for i, s := range o.Op.Subs {
				on := true
				granted := s.QoS
				if o.Ack != nil {
					if i < len(o.Ack.Codes) {
						if o.Ack.Codes[i] >= 0x80 {
							on = false
						} else {
							granted = o.Ack.Codes[i]
						}
					}
				}
				if !on {
					continue
				}
				id := uint32(0)
				if p.Clients[o.Op.C].Ver == 5 {
					id = o.Op.SubID
				}
				add(o.Op.C, s.Filter, model.Change{Span: sp, On: true, Val: subVal{s, granted, id}})
			}
		case "unsubscribe":
			for _, f := range o.Op.Filters {
				add(o.Op.C, f, model.Change{Span: sp, On: false})
			}
		case "api_subscribe":
			if c, ok := cidx[o.Op.Target]; ok {
				for _, s := range o.Op.Subs {
					add(c, s.Filter, model.Change{Span: sp, On: true, Val: subVal{s, s.QoS, o.Op.SubID}})
				}
			}
		case "api_unsubscribe":
			if c, ok := cidx[o.Op.Target]; ok {
				for _, f := range o.Op.Filters {
					add(c, f, model.Change{Span: sp, On: false})
				}
			}
		case "api_unsuball":
			// revokes every subscription of the client, whatever the filter: a revoking change is entered
			// for every filter the client ever uses; Holds orders changes by their spans
			if c, ok := cidx[o.Op.Target]; ok {
				for _, op2 := range h.Ops {
					switch op2.Op.K {
					case "subscribe":
						if op2.Op.C == c {
							for _, s := range op2.Op.Subs {
								add(c, s.Filter, model.Change{Span: sp, On: false})
							}
						}
					case "api_subscribe":
						if op2.Op.Target == o.Op.Target {
							for _, s := range op2.Op.Subs {
								add(c, s.Filter, model.Change{Span: sp, On: false})
							}
						}
					}
				}
			}
		}
	}
	return tl
}

type pubInfo struct {
	op    *sim.OpRec
	q     model.Span
	actor int
	seq   int // order within the actor
}

func oracleC01(p *sim.Plan, out *sim.Outcome) []sim.Violation {
	vs := genericOracle(p, out)
	h := out.H
	ends := phaseEnds(h)
	tl := subTimelines(p, h)
	pubs := map[string]*pubInfo{}
	seqOf := map[int]int{}
	for _, o := range h.Ops {
		if o.Op.K != "publish" && o.Op.K != "api_publish" {
			continue
		}
		seqOf[o.Op.C]++
		if o.Inv < 0 {
			continue
		}
		q := model.Span{Inv: o.Inv, Resp: o.Resp}
		if o.Op.K == "publish" && (o.Op.QoS == 0 || o.Resp < 0) {
			q.Resp = effResp(h, o, ends)
		}
		pubs[string(sim.PayloadOf(o.Op))] = &pubInfo{op: o, q: q, actor: o.Op.C, seq: seqOf[o.Op.C]}
		// C01.ack
		if o.Op.K == "publish" && o.Op.QoS > 0 {
			if o.Result != "ok" || o.Ack == nil {
				vs = append(vs, viol("C01", "ack", "ack-missing", "QoS %d PUBLISH pid=%d payload=%s by client %d was not acknowledged (%s)", o.Op.QoS, o.PID, o.Op.Payload, o.Op.C, o.Result))
			} else if o.Ack.PID != o.PID {
				vs = append(vs, viol("C01", "ack", "ack-wrong-id", "ack pid %d for PUBLISH pid %d", o.Ack.PID, o.PID))
			}
		}
	}
	// spurious / duplicate acks
	for ci := range p.Clients {
		sent := map[string]int{}
		got := map[string]int{}
		for _, r := range h.Recs {
			if r.C != ci || r.Pkt == nil {
				continue
			}
			if r.Kind == "tx" && r.Pkt.Type == mqttc.PUBLISH && r.Pkt.QoS > 0 {
				t := byte(mqttc.PUBACK)
				if r.Pkt.QoS == 2 {
					t = mqttc.PUBREC
				}
				sent[fmt.Sprintf("%d/%d/%d", r.Conn, t, r.Pkt.PID)]++
			}
			if r.Kind == "rx" && (r.Pkt.Type == mqttc.PUBACK || r.Pkt.Type == mqttc.PUBREC) {
				got[fmt.Sprintf("%d/%d/%d", r.Conn, r.Pkt.Type, r.Pkt.PID)]++
			}
		}
		for k, n := range got {
			if n > sent[k] {
				vs = append(vs, viol("C01", "ack", "ack-extra", "client %d received %d acks %s for %d publishes", ci, n, k, sent[k]))
			}
		}
	}
	overlap := p.Broker.DeliveryMode == "overlap"
	for si, sc := range p.Clients {
		// received publishes grouped by payload, in order
		type rc struct {
			attr copyAttr
			dup  bool
			rec  *sim.Rec
		}
		recv := map[string][]rc{}
		var order []*sim.Rec
		for _, r := range h.Recs {
			if r.Kind == "rx" && r.C == si && r.Pkt.Type == mqttc.PUBLISH {
				a := copyAttr{qos: r.Pkt.QoS, retain: r.Pkt.Retain}
				if r.Pkt.Props != nil {
					a.ids = idsKey(r.Pkt.Props.SubIDs)
				}
				k := string(r.Pkt.Payload)
				recv[k] = append(recv[k], rc{a, r.Pkt.Dup, r})
				order = append(order, r)
			}
		}
		for k, rs := range recv {
			if _, ok := pubs[k]; !ok {
				vs = append(vs, viol("C01", "exclusive", "unknown-payload", "client %d received payload %q that nobody published (%s)", si, trunc(k), rs[0].rec.Pkt))
			}
		}
		mayRetained := map[string]bool{}
		var payloads []string
		for k := range pubs {
			payloads = append(payloads, k)
		}
		sort.Strings(payloads)
		for _, k := range payloads {
			pi := pubs[k]
			op := pi.op.Op
			// candidates: matching filters of this subscriber
			type cand struct {
				filter string
				st     model.State3
				vals   []subVal
			}
			var cands []cand
			var fs []string
			for f := range tl[si] {
				fs = append(fs, f)
			}
			sort.Strings(fs)
			extra := 0
			for _, f := range fs {
				if sh, _ := model.SplitShare(f); sh != "" {
					continue
				}
				if !model.Match(f, op.Topic) {
					continue
				}
				st, vals := model.Holds(tl[si][f], pi.q)
				if op.Retain && len(sim.PayloadOf(op)) > 0 {
					for _, ch := range tl[si][f] {
						if ch.On && !(ch.Resp >= 0 && ch.Resp < pi.q.Inv) {
							extra++
						}
					}
				}
				if st == model.No {
					continue
				}
				c := cand{filter: f, st: st}
				for _, v := range vals {
					c.vals = append(c.vals, v.(subVal))
				}
				cands = append(cands, c)
			}
			if extra > 0 {
				mayRetained[k] = true
			}
			got := recv[k]
			for _, g := range got {
				if g.dup {
					vs = append(vs, viol("C01", "flags", "dup-first", "client %d received %q with DUP=1 on first transmission", si, trunc(k)))
				}
				// C01.content: a copy is the published application message — topic and, towards an MQTT 5 client, its properties
				if g.rec.Pkt.Topic != op.Topic && (g.rec.Pkt.Props == nil || g.rec.Pkt.Props.TopicAlias == nil) {
					vs = append(vs, viol("C01", "content", "topic", "client %d received %q under topic %q, published to %q", si, trunc(k), g.rec.Pkt.Topic, op.Topic))
				}
				if sc.Ver == 5 {
					fromV5 := pi.actor < 0 || p.Clients[pi.actor].Ver == 5
					if d := msgPropsMismatch(op, fromV5, g.rec.Pkt); d != "" {
						vs = append(vs, viol("C01", "content", "properties", "client %d received %q with %s", si, trunc(k), d))
					}
				}
			}
			// enumerate feasible expectations
			self := pi.actor == si
			var expectations [][]copyAttr
			var rec func(i int, present []subVal)
			nexp := 0
			rec = func(i int, present []subVal) {
				if nexp > 4096 {
					return
				}
				if i == len(cands) {
					nexp++
					expectations = append(expectations, expectCopies(op, present, overlap, sc.Ver == 5)...)
					return
				}
				c := cands[i]
				absentOK := c.st == model.May
				for _, v := range c.vals {
					if self && v.sub.NoLocal {
						absentOK = true
						continue
					}
					rec(i+1, append(append([]subVal{}, present...), v))
				}
				if absentOK || len(c.vals) == 0 {
					rec(i+1, present)
				}
			}
			rec(0, nil)
			if nexp > 4096 {
				continue // too ambiguous to judge
			}
			gotAttrs := make([]copyAttr, len(got))
			for i, g := range got {
				gotAttrs[i] = g.attr
				if sc.Ver != 5 {
					gotAttrs[i].ids = ""
				}
			}
			if matchAny(gotAttrs, expectations, extra) {
				continue
			}
			minN, maxN := 1<<30, 0
			for _, e := range expectations {
				if len(e) < minN {
					minN = len(e)
				}
				if len(e) > maxN {
					maxN = len(e)
				}
			}
			desc := fmt.Sprintf("publish %q topic=%q qos=%d retain=%v by actor %d (%s mode); subscriber client %d (v%d) candidates=%s; got %v; allowed %v (+%d retained replays)",
				trunc(k), op.Topic, op.QoS, op.Retain, pi.actor, p.Broker.DeliveryMode, si, sc.Ver, candStr(cands), gotAttrs, expectations, extra)
			switch {
			case len(got) < minN:
				vs = append(vs, viol("C01", "complete", "missing", "message not delivered: %s", desc))
			case len(got) > maxN+extra:
				sig := "extra"
				if maxN == 0 {
					sig = "unmatched"
				}
				vs = append(vs, viol("C01", "exclusive", sig, "too many copies: %s", desc))
			default:
				vs = append(vs, viol("C01", "flags", "attrs", "wrong QoS / RETAIN / subscription identifiers: %s", desc))
			}
		}
		// C01.order: per publisher, received sequence follows publication order
		last := map[int]int{}
		lastP := map[int]string{}
		for _, r := range order {
			k := string(r.Pkt.Payload)
			pi := pubs[k]
			if pi == nil || mayRetained[k] {
				continue
			}
			if pi.seq < last[pi.actor] {
				vs = append(vs, viol("C01", "order", "order", "client %d received %q (publication #%d of actor %d) after %q (#%d)", si, trunc(k), pi.seq, pi.actor, trunc(lastP[pi.actor]), last[pi.actor]))
			}
			if pi.seq > last[pi.actor] {
				last[pi.actor] = pi.seq
				lastP[pi.actor] = k
			}
		}
	}
	return vs
}

func trunc(s string) string {
	if i := strings.IndexByte(s, '.'); i > 0 && len(s) > 24 {
		return s[:i] + "…"
	}
	if len(s) > 24 {
		return s[:24] + "…"
	}
	return s
}

func candStr(cs any) string { return fmt.Sprintf("%+v", cs) }

func expectCopies(op *sim.Op, present []subVal, overlap bool, v5 bool) [][]copyAttr {
	if len(present) == 0 {
		return [][]copyAttr{nil}
	}
	minq := func(a, b byte) byte {
		if a < b {
			return a
		}
		return b
	}
	if overlap {
		var e []copyAttr
		for _, v := range present {
			a := copyAttr{qos: minq(op.QoS, v.granted), retain: op.Retain && v.sub.RAP}
			if v5 && v.id != 0 {
				a.ids = idsKey([]uint32{v.id})
			}
			e = append(e, a)
		}
		return [][]copyAttr{e}
	}
	var maxg byte
	var ids []uint32
	for _, v := range present {
		if v.granted > maxg {
			maxg = v.granted
		}
		if v.id != 0 {
			ids = append(ids, v.id)
		}
	}
	var out [][]copyAttr
	seen := map[bool]bool{}
	for _, v := range present {
		if v.granted != maxg {
			continue
		}
		r := op.Retain && v.sub.RAP
		if seen[r] {
			continue
		}
		seen[r] = true
		a := copyAttr{qos: minq(op.QoS, maxg), retain: r}
		if v5 {
			a.ids = idsKey(ids)
		}
		out = append(out, []copyAttr{a})
	}
	return out
}

// matchAny reports whether got equals one of the expectations as a multiset after removing at most
// extra copies (possible retained replays, whose attributes are judged by C07).
func matchAny(got []copyAttr, exps [][]copyAttr, extra int) bool {
	for _, e := range exps {
		if len(got) < len(e) || len(got) > len(e)+extra {
			continue
		}
		// multiset inclusion: e ⊆ got
		used := make([]bool, len(got))
		ok := true
		for _, x := range e {
			f := false
			for i, g := range got {
				if !used[i] && g == x {
					used[i] = true
					f = true
					break
				}
			}
			if !f {
				ok = false
				break
			}
		}
		if ok {
			return true
		}
	}
	return false
}
