package sim

// wsClient is the simulator's RFC 6455 client side (built with the C18 check).
type wsClient struct{}

func newWSClient(w *World) *wsClient { return &wsClient{} }

func (ws *wsClient) handshake(w *World, c *cconn) {}

func (ws *wsClient) frame(w *World, b []byte) []byte { return b }

func (ws *wsClient) unframe(w *World, c *cconn, b []byte, step int) ([]byte, error) { return b, nil }
