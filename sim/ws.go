package sim

import (
	"bytes"
	"encoding/binary"
	"errors"
	"fmt"
	"time"
)

// wsClient is the simulator's RFC 6455 client side. It turns the scripted client's MQTT byte stream
// into masked binary messages with a seeded segmentation, and the broker's frames back into bytes.
type wsClient struct {
	mode      int  // segmentation mode (Plan.Net / connect op)
	upgraded  bool // the 101 response was seen
	hsBuf     []byte
	inBuf     []byte // frame reassembly, broker -> client
	pending   []byte // MQTT bytes held back to be packed with the next packet
	flushEv   bool
	textMode  bool // send the stream as text messages (must be rejected)
	Frames    int
	NonBinary int
	Msgs      []int    // sizes of the binary messages sent
	waiting   []func() // sends deferred until the upgrade is complete
}

//go:norace
func newWSClient(w *World) *wsClient { return &wsClient{mode: w.netRng.IntN(6)} }

const wsRequest = "GET / HTTP/1.1\r\nHost: sim\r\nUpgrade: websocket\r\nConnection: Upgrade\r\n" +
	"Sec-WebSocket-Key: dGhlIHNhbXBsZSBub25jZQ==\r\nSec-WebSocket-Version: 13\r\nSec-WebSocket-Protocol: mqtt\r\n\r\n"

//go:norace
func (ws *wsClient) handshake(w *World, c *cconn) {
	c.enqueueRaw(w, []byte(wsRequest))
}

//go:norace
func wsFrame(op byte, fin bool, payload []byte, key [4]byte) []byte {
	var b []byte
	h := op
	if fin {
		h |= 0x80
	}
	b = append(b, h)
	n := len(payload)
	switch {
	case n < 126:
		b = append(b, 0x80|byte(n))
	case n < 65536:
		b = append(b, 0x80|126, byte(n>>8), byte(n))
	default:
		b = append(b, 0x80|127)
		var l [8]byte
		binary.BigEndian.PutUint64(l[:], uint64(n))
		b = append(b, l[:]...)
	}
	b = append(b, key[:]...)
	for i, x := range payload {
		b = append(b, x^key[i%4])
	}
	return b
}

// frame turns MQTT bytes into one or more WebSocket messages.
//
//go:norace
func (ws *wsClient) frame(w *World, b []byte) []byte {
	stream := append(ws.pending, b...)
	ws.pending = nil
	rng := w.netRng
	var out []byte
	key := func() [4]byte {
		return [4]byte{byte(rng.IntN(256)), byte(rng.IntN(256)), byte(rng.IntN(256)), byte(rng.IntN(256))}
	}
	emit := func(p []byte) {
		if len(p) == 0 {
			return
		}
		op := byte(2)
		if ws.textMode {
			op = 1
		}
		ws.Msgs = append(ws.Msgs, len(p))
		// sometimes as a fragmented message (continuation frames), sometimes with a ping in between
		if len(p) > 1 && rng.IntN(5) == 0 {
			cut := 1 + rng.IntN(len(p)-1)
			out = append(out, wsFrame(op, false, p[:cut], key())...)
			if rng.IntN(3) == 0 {
				out = append(out, wsFrame(9, true, []byte("hi"), key())...)
				w.Faults["ws.ping"]++
			}
			out = append(out, wsFrame(0, true, p[cut:], key())...)
			w.Faults["ws.fragmented"]++
			return
		}
		out = append(out, wsFrame(op, true, p, key())...)
	}
	switch ws.mode {
	case 0: // one message per call (aligned with the packets)
		emit(stream)
	case 1: // random split
		for len(stream) > 0 {
			n := 1 + rng.IntN(len(stream))
			emit(stream[:n])
			stream = stream[n:]
			w.Faults["ws.split"]++
		}
	case 2: // one-byte messages (small streams), else random split
		for len(stream) > 0 {
			n := 1
			if len(stream) > 40 {
				n = 1 + rng.IntN(len(stream))
			}
			emit(stream[:n])
			stream = stream[n:]
			w.Faults["ws.split"]++
		}
	case 3: // sizes around the broker's read buffer (1024) and its multiples
		for len(stream) > 0 {
			n := []int{1023, 1024, 1025, 2047, 2048, 2049, 1, 511}[rng.IntN(8)]
			if n > len(stream) {
				n = len(stream)
			}
			emit(stream[:n])
			stream = stream[n:]
			w.Faults["ws.split"]++
		}
	case 4: // hold back the tail: it travels with the next packet (boundaries not aligned)
		if len(stream) > 1 && rng.IntN(2) == 0 {
			keep := 1 + rng.IntN(min(len(stream)-1, 8))
			ws.pending = append([]byte{}, stream[len(stream)-keep:]...)
			stream = stream[:len(stream)-keep]
			w.Faults["ws.unaligned"]++
		}
		emit(stream)
	case 6: // pack: several MQTT packets travel in one message (held back until enough has gathered or the flush timer fires)
		if len(stream) < 400+rng.IntN(600) {
			ws.pending = append([]byte{}, stream...)
			w.Faults["ws.packed"]++
			return out
		}
		emit(stream)
	case 5: // leave exactly one byte for the next message
		if len(stream) > 1 {
			emit(stream[:len(stream)-1])
			emit(stream[len(stream)-1:])
			w.Faults["ws.split"]++
		} else {
			emit(stream)
		}
	}
	return out
}

// flushPending returns frames for held-back bytes (called by a timer so that nothing is held forever).
//
//go:norace
func (ws *wsClient) flushPending(w *World) []byte {
	if len(ws.pending) == 0 {
		return nil
	}
	p := ws.pending
	ws.pending = nil
	key := [4]byte{1, 2, 3, 4}
	ws.Msgs = append(ws.Msgs, len(p))
	return wsFrame(2, true, p, key)
}

var errWS = errors.New("websocket protocol error")

// unframe consumes bytes written by the broker and returns the payload bytes of complete binary messages.
//
//go:norace
func (ws *wsClient) unframe(w *World, c *cconn, b []byte, step int) ([]byte, error) {
	if !ws.upgraded {
		ws.hsBuf = append(ws.hsBuf, b...)
		i := bytes.Index(ws.hsBuf, []byte("\r\n\r\n"))
		if i < 0 {
			return nil, nil
		}
		head := string(ws.hsBuf[:i])
		rest := ws.hsBuf[i+4:]
		ws.hsBuf = nil
		if len(head) < 12 || head[9:12] != "101" {
			return nil, fmt.Errorf("websocket upgrade refused: %q", head)
		}
		ws.upgraded = true
		b = rest
	}
	ws.inBuf = append(ws.inBuf, b...)
	var out []byte
	for {
		if len(ws.inBuf) < 2 {
			return out, nil
		}
		op := ws.inBuf[0] & 0x0f
		fin := ws.inBuf[0]&0x80 != 0
		masked := ws.inBuf[1]&0x80 != 0
		n := int(ws.inBuf[1] & 0x7f)
		pos := 2
		if n == 126 {
			if len(ws.inBuf) < 4 {
				return out, nil
			}
			n = int(ws.inBuf[2])<<8 | int(ws.inBuf[3])
			pos = 4
		} else if n == 127 {
			if len(ws.inBuf) < 10 {
				return out, nil
			}
			n = int(binary.BigEndian.Uint64(ws.inBuf[2:10]))
			pos = 10
		}
		if masked {
			return out, fmt.Errorf("%w: server frame is masked", errWS)
		}
		if len(ws.inBuf) < pos+n {
			return out, nil
		}
		payload := ws.inBuf[pos : pos+n]
		ws.inBuf = ws.inBuf[pos+n:]
		ws.Frames++
		switch op {
		case 2, 0:
			out = append(out, payload...)
			_ = fin
		case 1:
			ws.NonBinary++
			w.Violate(w.Plan.Prop, "binary_out", "the broker sent a WebSocket text frame (%d bytes)", n)
		case 8, 9, 10:
			// close / ping / pong: control frames carry no MQTT bytes
		default:
			ws.NonBinary++
		}
	}
}

// enqueueRaw queues raw bytes (no framing) for delivery.
//
//go:norace
func (c *cconn) enqueueRaw(w *World, b []byte) {
	c.sendSeq++
	at := time.Now().Add(w.latency())
	if n := len(c.sendq); n > 0 && at.Before(c.sendq[n-1].at) {
		at = c.sendq[n-1].at
	}
	c.sendq = append(c.sendq, &outPkt{at: at, seq: c.sendSeq, b: b})
}
