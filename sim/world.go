package sim

import (
	"context"
	"errors"
	"fmt"
	"math/rand/v2"
	"net/http"
	"os"
	"sort"
	"sync"
	"testing"
	"testing/synctest"
	"time"
	"unsafe"

	"github.com/DrmagicE/gmqtt"
	"github.com/DrmagicE/gmqtt/config"
	_ "github.com/DrmagicE/gmqtt/persistence"
	"github.com/DrmagicE/gmqtt/server"
	_ "github.com/DrmagicE/gmqtt/topicalias/fifo"

	"verifsim/mqttc"
	"verifsim/simnet"
	"verifsim/simrt"
)

// Node is one broker instance inside the simulation.
type Node struct {
	Idx          int
	Srv          server.Server
	Ln           *simnet.Listener
	WsLn         *simnet.Listener
	Cfg          config.Config
	Started      bool
	RunReturned  bool
	RunErr       error
	StopIssued   bool
	StopReturned bool
	StopErr      error
	StopStep     int
	Gen          int // restart generation
}

type tev struct {
	at        time.Time
	seq       int
	name      string
	fn        func()
	cancelled bool
}

// Setup lets a check customise the broker (hooks, plugins, extra listeners) per node.
type Setup struct {
	// Options returns extra server options for node n (called in the run task, before server.New).
	Options func(w *World, n int) []server.Options
	// Config may edit the configuration of node n.
	Config func(w *World, n int, cfg *config.Config)
	// BaseHooks toggles the recording hooks (default on).
	NoBaseHooks bool
	// Custom API functions callable through Op{K:"api_custom"}.
	Custom map[string]func(w *World, op *Op) any
	// Invariant is evaluated at every scheduler iteration (cheap checks only).
	Invariant func(w *World) *Violation
	// OnQuiescent is called at the end of every phase (in the root goroutine; use w.Observer for broker access).
	OnPhaseEnd func(w *World, phase int)
	// Cleanup is called when the run is over (scratch files etc.).
	Cleanup func()
	// Ext carries check-specific simulated services to the oracle.
	Ext any
	// OnConnected is called from the broker's OnConnected hook (broker task context).
	OnConnected func(w *World, node int, client server.Client)
	// EditHooks may add hooks to the recording hooks of node n before they are installed.
	EditHooks func(w *World, n int, h *server.Hooks)
}

// World is one simulated run.
type World struct {
	T     *testing.T
	S     *simrt.Sched
	Plan  *Plan
	Setup *Setup
	T0    time.Time
	H     *History
	Nodes []*Node

	mu      sync.Mutex // guards H and counters against hook callbacks from tasks
	clients []*cli
	conns   []*cconn
	events  []*tev
	evSeq   int
	netRng  *rand.Rand

	phase      int // current phase index; -1 before start
	phaseOps   []*OpRec
	phaseDL    *tev
	phaseStart time.Duration
	final      int
	finalAt    time.Time
	apiBusy    int

	Faults          map[string]int
	Probes          map[string]int
	Viol            []Violation
	LeakedAfterStop []string
	LeakedAfterCut  []string
	EndErr          error
	SimTime         time.Duration
	aborted         bool
	stopOps         int
	obsBusy         bool
	jumping         bool
	triggers        map[string][]func()
}

// Now returns simulated time since the start of the run.
//
//go:norace
func (w *World) Now() time.Duration { return time.Since(w.T0) }

// Step returns the current global step.
//
//go:norace
func (w *World) Step() int { return w.S.StepCnt }

// Fault counts an injected fault that actually fired.
//
//go:norace
func (w *World) Fault(kind string) {
	simrt.RaceDisable() // simulator bookkeeping is invisible to the race detector
	defer simrt.RaceEnable()
	w.mu.Lock()
	w.Faults[kind]++
	w.mu.Unlock()
}

// Probe counts a reach probe.
//
//go:norace
func (w *World) Probe(name string) {
	simrt.RaceDisable() // simulator bookkeeping is invisible to the race detector
	defer simrt.RaceEnable()
	w.mu.Lock()
	w.Probes[name]++
	w.mu.Unlock()
}

// Violate records a violation found during the run.
//
//go:norace
func (w *World) Violate(prop, clause, f string, a ...any) {
	simrt.RaceDisable() // simulator bookkeeping is invisible to the race detector
	defer simrt.RaceEnable()
	w.mu.Lock()
	w.Viol = append(w.Viol, Violation{Prop: prop, Clause: clause, Msg: fmt.Sprintf(f, a...)})
	w.mu.Unlock()
}

//go:norace
func (w *World) rec(r *Rec) *Rec {
	simrt.RaceDisable() // simulator bookkeeping is invisible to the race detector
	defer simrt.RaceEnable()
	w.mu.Lock()
	defer w.mu.Unlock()
	if r.Step == 0 {
		r.Step = w.S.StepCnt
	}
	r.T = time.Since(w.T0)
	return w.H.add(r)
}

// RecHook records a hook observation (called from broker tasks).
//
//go:norace
func (w *World) RecHook(node int, note string, val any) {
	w.rec(&Rec{Kind: "hook", C: -1, Conn: -1, Op: -1, Node: node, Note: note, Val: val})
}

//go:norace
func (w *World) after(d time.Duration, name string, fn func()) *tev {
	w.evSeq++
	e := &tev{at: time.Now().Add(d), seq: w.evSeq, name: name, fn: fn}
	w.events = append(w.events, e)
	return e
}

// BeforeTeardown, when set, is called right before the scheduler releases every remaining task at once to
// let it unwind (the race instrument stops listening there: during teardown the virtual locks no longer
// exclude anybody).
var BeforeTeardown func()

// caller wraps the body of a task that calls into the broker from outside (API caller, Stop, observer): an
// embedding program calls the services of a server it has started, so the task is ordered after the
// moment the broker last asked its listener for a connection (race detector only; no effect otherwise).
//
//go:norace
func (w *World) caller(f func()) func() {
	return func() {
		for _, nd := range w.Nodes {
			if nd.Ln != nil {
				simrt.RaceAcquire(unsafe.Pointer(&nd.Ln.HB))
			}
		}
		f()
	}
}

// After schedules fn as a simulator event d from now (for simulated services attached to the world).
//
//go:norace
func (w *World) After(d time.Duration, name string, fn func()) { w.after(d, name, fn) }

// brokerConfig builds the gmqtt configuration of a node from the plan.
//
//go:norace
func (w *World) brokerConfig(n int) config.Config {
	b := w.Plan.Broker
	cfg := config.DefaultConfig()
	cfg.Plugins = nil
	cfg.PluginOrder = nil
	cfg.API = config.API{}
	cfg.Listeners = nil
	m := &cfg.MQTT
	if b.DeliveryMode != "" {
		m.DeliveryMode = b.DeliveryMode
	}
	if b.MaxQueued != 0 {
		m.MaxQueuedMsg = b.MaxQueued
	}
	if b.MaxInflight != 0 {
		m.MaxInflight = uint16(b.MaxInflight)
	}
	if b.ReceiveMax != 0 {
		m.ReceiveMax = uint16(b.ReceiveMax)
	}
	if b.TopicAliasMax != nil {
		m.TopicAliasMax = uint16(*b.TopicAliasMax)
	}
	if b.MaxPacketSize != 0 {
		m.MaxPacketSize = uint32(b.MaxPacketSize)
	}
	if b.NoQueueQos0 {
		m.QueueQos0Msg = false
	}
	if b.SessionExpiryS != nil {
		m.SessionExpiry = time.Duration(*b.SessionExpiryS) * time.Second
	}
	if b.MessageExpiryS != nil {
		m.MessageExpiry = time.Duration(*b.MessageExpiryS) * time.Second
	}
	if b.InflightExpiryS != nil {
		m.InflightExpiry = time.Duration(*b.InflightExpiryS) * time.Second
	}
	if b.MaxKeepAlive != 0 {
		m.MaxKeepAlive = uint16(b.MaxKeepAlive)
	}
	if b.Persistence != "" {
		cfg.Persistence.Type = config.PersistenceType(b.Persistence)
	}
	cfg.PluginOrder = append([]string{}, b.PluginOrder...)
	if w.Setup != nil && w.Setup.Config != nil {
		w.Setup.Config(w, n, &cfg)
	}
	return cfg
}

//go:norace
func (w *World) baseHooks(n int) server.Hooks {
	type drop = DropInfo
	return server.Hooks{
		OnMsgDropped: func(ctx context.Context, clientID string, msg *gmqtt.Message, err error) {
			w.RecHook(n, "dropped", drop{clientID, string(msg.Payload), msg.QoS, msg.Topic, fmt.Sprint(err)})
		},
		OnConnected: func(ctx context.Context, client server.Client) {
			if w.Setup != nil && w.Setup.OnConnected != nil {
				w.Setup.OnConnected(w, n, client)
			}
		},
		OnClosed: func(ctx context.Context, client server.Client, err error) {
			w.RecHook(n, "closed", [2]string{client.ClientOptions().ClientID, fmt.Sprint(err)})
		},
		OnSessionCreated: func(ctx context.Context, client server.Client) {
			w.RecHook(n, "session_created", client.ClientOptions().ClientID)
		},
		OnSessionResumed: func(ctx context.Context, client server.Client) {
			w.RecHook(n, "session_resumed", client.ClientOptions().ClientID)
		},
		OnSessionTerminated: func(ctx context.Context, clientID string, reason server.SessionTerminatedReason) {
			w.RecHook(n, "session_terminated", [2]string{clientID, fmt.Sprint(reason)})
		},
		OnWillPublished: func(ctx context.Context, clientID string, msg *gmqtt.Message) {
			w.RecHook(n, "will_published", [2]string{clientID, string(msg.Payload)})
		},
		OnStop: func(ctx context.Context) {
			w.RecHook(n, "onstop", nil)
		},
	}
}

// DropInfo is the payload of a "dropped" hook record.
type DropInfo struct {
	Client  string
	Payload string
	QoS     byte
	Topic   string
	Err     string
}

// StartNode creates and runs broker node n as a task.
//
//go:norace
func (w *World) StartNode(n int) {
	nd := w.Nodes[n]
	nd.Gen++
	nd.Ln = simnet.NewListener(w.S, fmt.Sprintf("tcp%d.%d", n, nd.Gen))
	nd.WsLn = simnet.NewListener(w.S, fmt.Sprintf("ws%d.%d", n, nd.Gen))
	nd.Started, nd.RunReturned, nd.StopIssued, nd.StopReturned = true, false, false, false
	nd.RunErr, nd.StopErr = nil, nil
	nd.Cfg = w.brokerConfig(n)
	gen := nd.Gen
	w.S.Go(fmt.Sprintf("run%d", n), func() {
		if gen > 1 {
			// a restarted process: everything the goroutines of the dead one did is in its past
			simrt.RaceAcquire(unsafe.Pointer(&w.S.EndHB))
		}
		opts := []server.Options{server.WithConfig(nd.Cfg), server.WithTCPListener(nd.Ln)}
		if w.Plan.Params["ws"] != "" {
			addr := fmt.Sprintf("ws%d.%d", n, gen)
			simnet.Register(addr, nd.WsLn)
			opts = append(opts, server.WithWebsocketServer(&server.WsServer{Server: &http.Server{Addr: addr}, Path: "/"}))
		}
		if w.Setup == nil || !w.Setup.NoBaseHooks {
			hk := w.baseHooks(n)
			if w.Setup != nil && w.Setup.EditHooks != nil {
				w.Setup.EditHooks(w, n, &hk)
			}
			opts = append(opts, server.WithHook(hk))
		}
		if w.Setup != nil && w.Setup.Options != nil {
			opts = append(opts, w.Setup.Options(w, n)...)
		}
		srv := server.New(opts...)
		nd.Srv = srv
		err := srv.Run()
		if nd.Gen == gen {
			nd.RunErr = err
			nd.RunReturned = true
			if !nd.StopIssued {
				w.EndErr = fmt.Errorf("broker node %d: Run returned before Stop: %v", n, err)
				w.aborted = true
			}
		}
		w.rec(&Rec{Kind: "note", C: -1, Conn: -1, Op: -1, Node: n, Note: fmt.Sprintf("run returned: %v", err)})
	})
}

// StopNode issues Stop on node n as a task.
//
//go:norace
func (w *World) StopNode(n int, timeout time.Duration, done func()) {
	nd := w.Nodes[n]
	if nd.Srv == nil || nd.StopIssued {
		if done != nil {
			done()
		}
		return
	}
	nd.StopIssued = true
	nd.StopStep = w.S.StepCnt
	w.rec(&Rec{Kind: "note", C: -1, Conn: -1, Op: -1, Node: n, Note: "stop issued"})
	w.S.Go(fmt.Sprintf("stop%d", n), w.caller(func() {
		ctx, cancel := context.WithTimeout(context.Background(), timeout)
		defer cancel()
		err := nd.Srv.Stop(ctx)
		nd.StopErr = err
		nd.StopReturned = true
		w.rec(&Rec{Kind: "note", C: -1, Conn: -1, Op: -1, Node: n, Note: fmt.Sprintf("stop returned: %v", err)})
		if done != nil {
			done()
		}
	}))
}

// ---------------------------------------------------------------- simrt.Driver

// Observe drains broker output into the client state machines and evaluates invariants.
//
//go:norace
func (w *World) Observe(step int) error {
	for _, c := range w.conns {
		if c.dead {
			continue
		}
		c.drain(w)
	}
	if w.Setup != nil && w.Setup.Invariant != nil {
		if v := w.Setup.Invariant(w); v != nil {
			w.mu.Lock()
			w.Viol = append(w.Viol, *v)
			w.mu.Unlock()
			return errInvariant
		}
	}
	return nil
}

var errInvariant = errors.New("invariant violated")

// Due returns the enabled simulator events.
//
//go:norace
func (w *World) Due(now time.Time) (due []*simrt.Event, next time.Time) {
	// compact cancelled / consumed events
	live := w.events[:0]
	for _, e := range w.events {
		if !e.cancelled {
			live = append(live, e)
		}
	}
	w.events = live
	var dueT []*tev
	for _, e := range w.events {
		if !e.at.After(now) {
			dueT = append(dueT, e)
		} else if next.IsZero() || e.at.Before(next) {
			next = e.at
		}
	}
	sort.Slice(dueT, func(a, b int) bool { return dueT[a].seq < dueT[b].seq })
	for _, e := range dueT {
		e := e
		due = append(due, &simrt.Event{Seq: e.seq, Name: e.name, Run: func() {
			e.cancelled = true
			e.fn()
		}})
	}
	for _, c := range w.conns {
		if c.dead || len(c.sendq) == 0 {
			continue
		}
		h := c.sendq[0]
		if !h.at.After(now) {
			c := c
			due = append(due, &simrt.Event{Seq: 1 << 30, Name: "net:" + c.name, Run: func() { c.deliverNext(w) }})
		} else if next.IsZero() || h.at.Before(next) {
			next = h.at
		}
	}
	return
}

// Done is asked when nothing is runnable and nothing is due.
//
//go:norace
func (w *World) Done() bool {
	if w.aborted {
		return true
	}
	if w.jumping {
		return false
	}
	if w.phase < len(w.Plan.Phases) {
		if w.phaseComplete() && w.pendingFuture() == 0 {
			w.endPhase()
			w.kick()
		}
		return false
	}
	before := w.final
	if w.finalStep() {
		return true
	}
	if w.final != before {
		w.kick()
	}
	return false
}

//go:norace
func (w *World) kick() { w.after(0, "kick", func() {}) }

// pendingFuture counts scheduled simulator events other than the phase deadline.
//
//go:norace
func (w *World) pendingFuture() int {
	n := 0
	for _, e := range w.events {
		if !e.cancelled && e != w.phaseDL {
			n++
		}
	}
	for _, c := range w.conns {
		if !c.dead {
			n += len(c.sendq)
		}
	}
	return n + w.apiBusy + w.S.Sleepers()
}

//go:norace
func (w *World) phaseComplete() bool {
	if w.phase < 0 {
		return true
	}
	for _, o := range w.phaseOps {
		if !o.Done {
			return false
		}
	}
	return true
}

//go:norace
func (w *World) endPhase() {
	if w.phase >= 0 {
		if w.phaseDL != nil {
			w.phaseDL.cancelled = true
			w.phaseDL = nil
		}
		w.rec(&Rec{Kind: "phase", C: -1, Conn: -1, Op: -1, Note: fmt.Sprintf("end %d", w.phase)})
		if w.Setup != nil && w.Setup.OnPhaseEnd != nil {
			w.Setup.OnPhaseEnd(w, w.phase)
		}
		adv := w.Plan.Phases[w.phase].Advance.D()
		w.phase++
		if adv > 0 {
			w.Fault("clock.jump")
			w.jumping = true // parked while the clock jumps
			w.after(adv, "advance", func() {
				w.jumping = false
				w.startPhase()
			})
			return
		}
	} else {
		w.phase = 0
	}
	w.startPhase()
}

//go:norace
func (w *World) startPhase() {
	if w.phase >= len(w.Plan.Phases) {
		return
	}
	ph := &w.Plan.Phases[w.phase]
	w.rec(&Rec{Kind: "phase", C: -1, Conn: -1, Op: -1, Note: fmt.Sprintf("start %d", w.phase)})
	w.phaseOps = nil
	w.phaseStart = w.Now()
	actors := map[int]*actor{}
	var order []int
	for i := range ph.Ops {
		op := &ph.Ops[i]
		or := &OpRec{Idx: len(w.H.Ops), Phase: w.phase, Op: op, Conn: -1, Inv: -1, Resp: -1}
		w.H.Ops = append(w.H.Ops, or)
		w.phaseOps = append(w.phaseOps, or)
		a := actors[op.C]
		if a == nil {
			a = &actor{id: op.C}
			actors[op.C] = a
			order = append(order, op.C)
		}
		a.q = append(a.q, or)
	}
	to := ph.TimeoutS
	if to == 0 {
		to = 120
	}
	phase := w.phase
	w.phaseDL = w.after(time.Duration(to)*time.Second, "phase-timeout", func() {
		if w.phase != phase {
			return
		}
		w.phaseDL = nil
		for _, o := range w.phaseOps {
			if !o.Done {
				w.finish(o, "timeout")
			}
		}
	})
	for _, id := range order {
		w.pump(actors[id])
	}
}

type actor struct {
	id  int
	q   []*OpRec
	cur int
}

// pump issues the actor's next operation when the previous one allows it.
//
//go:norace
func (w *World) pump(a *actor) {
	for a.cur < len(a.q) {
		o := a.q[a.cur]
		if o.Issued {
			if o.Done || o.Op.NoWait {
				a.cur++
				continue
			}
			return
		}
		if o.scheduled {
			return
		}
		o.onDone = func() { w.pump(a) }
		if tr := o.Op.Trigger; tr != "" {
			o.scheduled = true
			if w.triggers == nil {
				w.triggers = map[string][]func(){}
			}
			fired := false
			w.triggers[tr] = append(w.triggers[tr], func() {
				if fired || o.Done {
					return
				}
				fired = true
				w.Faults["sim.trigger_fired"]++
				o.Issued = true
				w.issue(o)
				w.pump(a)
			})
			d := o.Op.D.D()
			if d == 0 {
				d = 5 * time.Second
			}
			w.after(d, "trigger-expired", func() {
				if !fired {
					fired = true
					o.Issued = true
					w.finish(o, "skipped")
				}
			})
			return
		}
		if d := o.Op.Delay.D(); d > 0 {
			o.scheduled = true
			w.after(d, "issue", func() { o.Issued = true; w.issue(o); w.pump(a) })
			return
		}
		o.Issued = true
		w.issue(o)
	}
}

// FireTrigger issues the operations waiting for the named trigger (simulator context).
//
//go:norace
func (w *World) FireTrigger(name string) {
	// at most two waiting operations per occurrence, in registration order: later occurrences get the rest
	fs := w.triggers[name]
	if len(fs) == 0 {
		return
	}
	n := min(len(fs), 2)
	w.triggers[name] = fs[n:]
	for _, f := range fs[:n] {
		f()
	}
}

//go:norace
func (w *World) finish(o *OpRec, result string) {
	if o.Done {
		return
	}
	o.Done = true
	o.Result = result
	if result == "timeout" {
		w.rec(&Rec{Kind: "timeout", C: o.Op.C, Conn: o.Conn, Op: o.Idx, Note: o.Op.K})
	}
	if o.onDone != nil {
		f := o.onDone
		o.onDone = nil
		f()
	}
}

//go:norace
func (w *World) complete(o *OpRec, step int) {
	if o.Done {
		return
	}
	o.Resp = step
	o.RespT = w.Now()
	w.finish(o, "ok")
}

// finalStep drives the end-of-run sequence; returns true when the run is over.
//
//go:norace
func (w *World) finalStep() bool {
	switch w.final {
	case 0:
		w.final = 1
		w.rec(&Rec{Kind: "phase", C: -1, Conn: -1, Op: -1, Note: "final"})
		if w.Plan.Final == "nostop" {
			w.final = 3
			return false
		}
		any := false
		for i, nd := range w.Nodes {
			if nd.Started && !nd.StopIssued {
				any = true
				w.StopNode(i, 5*time.Second, nil)
			}
		}
		w.finalAt = time.Now().Add(30 * time.Second)
		w.after(30*time.Second, "final-deadline", func() {})
		if !any {
			w.final = 2
		}
		return false
	case 1:
		// wait until Run returned on every node or the deadline passed
		all := true
		for _, nd := range w.Nodes {
			if nd.Started && !(nd.RunReturned && nd.StopReturned) {
				all = false
			}
		}
		if all || !time.Now().Before(w.finalAt) {
			w.final = 2
		}
		return false
	case 2:
		w.LeakedAfterStop = w.S.Describe()
		w.final = 3
		return false
	case 3:
		// the peers go away: whatever is still blocked on a connection gets an error
		for _, c := range w.conns {
			if !c.dead && !c.cclosed {
				c.c.PeerReset()
				c.cclosed = true
			}
		}
		for _, e := range w.events {
			e.cancelled = true
		}
		w.after(10*time.Second, "final-settle", func() {})
		w.final = 4
		return false
	case 4:
		if w.pendingFuture() > 0 {
			return false
		}
		w.LeakedAfterCut = w.S.Describe()
		w.final = 5
		return true
	}
	return true
}

// ---------------------------------------------------------------- running a plan

// Outcome is what a run produced.
type Outcome struct {
	W        *World
	H        *History
	Viol     []Violation
	Steps    int
	Switches int
	SimTime  time.Duration
	Trace    []int32
	Hash     string
	SchedSig uint64
	Panics   []string
	LoopErr  error
	Leaked   bool // goroutines could not be torn down (bubble exit panic)
	Faults   map[string]int
	Probes   map[string]int
	SchedLog []string
}

// Run executes one plan inside a synctest bubble.
//
//go:norace
func Run(t *testing.T, plan *Plan, setup *Setup) (out *Outcome) {
	out = &Outcome{}
	if setup != nil && setup.Cleanup != nil {
		defer setup.Cleanup()
	}
	body := func(t *testing.T) {
		defer func() {
			if r := recover(); r != nil {
				msg := fmt.Sprint(r)
				if len(msg) >= 8 && msg[:8] == "deadlock" {
					out.Leaked = true
					return
				}
				panic(r)
			}
		}()
		synctest.Test(t, func(t *testing.T) { runBubble(t, plan, setup, out) })
	}
	if simrt.RaceOn {
		// a race report makes the testing package fail the bubble's T and FailNow its parent: give it a
		// parent of its own so that the worker survives and the outcome is still returned
		t.Run("run", body)
	} else {
		body(t)
	}
	return out
}

//go:norace
func runBubble(t *testing.T, plan *Plan, setup *Setup, out *Outcome) {
	{
		maxSteps := plan.Sched.MaxSteps
		if maxSteps == 0 {
			maxSteps = 300000
		}
		var rp []int32
		if plan.Sched.Explicit {
			rp = plan.Sched.Choices
			if rp == nil {
				rp = []int32{}
			}
		}
		s := simrt.Start(simrt.Options{Seed: plan.Sched.Seed, SwitchProb: plan.Sched.SwitchProb, Replay: rp})
		defer simrt.Stop()
		s.RootRaceDisable() // the root goroutine is the simulator: its synchronisation is not the system's
		defer s.RootRaceEnable()
		defer simnet.Unregister()
		if os.Getenv("VERIF_SCHEDLOG") != "" {
			s.LogSched = true
			defer func() { out.SchedLog = s.SchedLog }()
		}
		w := &World{T: t, S: s, Plan: plan, Setup: setup, T0: time.Now(), H: newHistory(), phase: -1,
			Faults: map[string]int{}, Probes: map[string]int{}}
		w.netRng = rand.New(rand.NewPCG(plan.Net.Seed, 0x6e6574))
		out.W, out.H = w, w.H
		for i := range plan.Clients {
			w.clients = append(w.clients, &cli{idx: i, spec: &plan.Clients[i], nextPID: 1})
		}
		nn := plan.Broker.Nodes
		if nn == 0 {
			nn = 1
		}
		for i := 0; i < nn; i++ {
			w.Nodes = append(w.Nodes, &Node{Idx: i})
		}
		if plan.Params["nostart"] == "" {
			for i := range w.Nodes {
				w.StartNode(i)
			}
		}
		err := s.Loop(w, maxSteps, 24*time.Hour)
		if err != nil && err != errInvariant {
			out.LoopErr = err
		}
		if w.EndErr != nil {
			out.LoopErr = w.EndErr
		}
		// a last drain so that output written in the final step is seen
		w.Observe(s.StepCnt)
		out.Steps = s.StepCnt
		out.Switches = s.Switches
		out.SimTime = w.Now()
		out.Trace = append([]int32{}, s.Trace...)
		out.SchedSig = s.SchedSig()
		out.Panics = append([]string{}, s.Panics...)
		out.Viol = append([]Violation{}, w.Viol...)
		out.Hash = w.H.Hash()
		out.Faults = w.Faults
		out.Probes = w.Probes
		out.Faults["sched.switch"] = s.Switches
		if BeforeTeardown != nil {
			BeforeTeardown()
		}
		s.Teardown()
	}
}

// Observer runs f as an exclusive observer task (read-only access to broker services) and waits for it
// by returning a completion flag; use from API ops (api_custom) rather than from the root goroutine.
//
//go:norace
func (w *World) Observer(name string, f func()) {
	w.apiBusy++
	w.S.GoExclusive("obs:"+name, w.caller(func() {
		defer func() { w.apiBusy-- }()
		f()
	}))
}

// Pkts returns all packets the given client received (kind rx), in order.
//
//go:norace
func (h *History) Pkts(c int, kind string) []*Rec {
	var r []*Rec
	for _, x := range h.Recs {
		if x.Kind == kind && x.C == c {
			r = append(r, x)
		}
	}
	return r
}

var _ = mqttc.CONNECT
