// Package sim is the simulation harness: it runs the real broker under simrt, drives scripted MQTT
// clients (event-driven state machines, not goroutines) over simnet connections, and records a
// history that the per-property oracles judge.
package sim

import (
	"encoding/json"
	"time"

	"verifsim/mqttc"
)

// Dur is a duration that is written to replay files in microseconds.
type Dur int64

//go:norace
func (d Dur) D() time.Duration { return time.Duration(d) * time.Microsecond }

// Us / Ms / Sec build durations.
//
//go:norace
func Us(n int) Dur { return Dur(n) }

//go:norace
func Ms(n int) Dur { return Dur(n * 1000) }

//go:norace
func Sec(n int) Dur { return Dur(n * 1000000) }

// BrokerCfg are the broker configuration knobs a run draws (0 / "" = gmqtt default).
type BrokerCfg struct {
	DeliveryMode    string   `json:",omitempty"`
	MaxQueued       int      `json:",omitempty"`
	MaxInflight     int      `json:",omitempty"`
	ReceiveMax      int      `json:",omitempty"`
	TopicAliasMax   *int     `json:",omitempty"`
	MaxPacketSize   int      `json:",omitempty"`
	NoQueueQos0     bool     `json:",omitempty"`
	SessionExpiryS  *int     `json:",omitempty"`
	MessageExpiryS  *int     `json:",omitempty"`
	InflightExpiryS *int     `json:",omitempty"`
	MaxKeepAlive    int      `json:",omitempty"`
	Persistence     string   `json:",omitempty"` // "memory" (default) | "redis"
	PluginOrder     []string `json:",omitempty"`
	Nodes           int      `json:",omitempty"` // federation: number of brokers (default 1)
}

// NetCfg controls the byte pipe between scripted clients and the broker.
type NetCfg struct {
	ChunkMode int  `json:",omitempty"` // 0 whole packets, 1 random split, 2 byte-wise (small), 3 coalesce due packets
	LatMaxUs  int  `json:",omitempty"` // per-packet latency drawn from [LatMinUs, LatMaxUs]
	LatMinUs  int  `json:",omitempty"`
	ZeroLat   bool `json:",omitempty"` // half of the client's packets reach the broker in the instant they are sent
	Seed      uint64
}

// SchedCfg controls the scheduler.
type SchedCfg struct {
	Seed       uint64
	SwitchProb float64
	Explicit   bool    `json:",omitempty"` // use Choices (missing entries = 0) instead of the PRNG
	Choices    []int32 `json:",omitempty"` // explicit schedule (replay / minimised)
	MaxSteps   int     `json:",omitempty"`
}

// Will is the will of a CONNECT.
type Will struct {
	Topic       string
	Payload     string
	QoS         byte
	Retain      bool
	DelayS      *uint32     `json:",omitempty"`
	ExpiryS     *uint32     `json:",omitempty"`
	ContentType *string     `json:",omitempty"`
	User        [][2]string `json:",omitempty"`
	RespTopic   *string     `json:",omitempty"`
	Corr        []byte      `json:",omitempty"`
	PFmt        *byte       `json:",omitempty"`
}

// Op is one operation of the workload (flat union; K selects the kind).
//
// Kinds issued by MQTT clients (C >= 0): connect, subscribe, unsubscribe, publish, ping, disconnect,
// cut, raw, await_close, stall, unstall, sleep, pubrel (send a withheld PUBREL), ack (send a withheld ack).
// Kinds issued by API actors (C < 0): api_publish, api_subscribe, api_unsubscribe, api_unsuball,
// api_terminate, api_close, api_stats, api_iterate, api_stop, sleep, api_custom.
type Op struct {
	K string
	C int // actor: >=0 client index, <0 API actor

	// connect
	Ver        byte    `json:",omitempty"` // override client spec version
	Clean      bool    `json:",omitempty"`
	ExpiryS    *uint32 `json:",omitempty"`
	KeepAlive  uint16  `json:",omitempty"`
	Will       *Will   `json:",omitempty"`
	User       *string `json:",omitempty"`
	Pass       *string `json:",omitempty"`
	RecvMax    *uint16 `json:",omitempty"`
	AliasMax   *uint16 `json:",omitempty"`
	MaxPkt     *uint32 `json:",omitempty"`
	AuthMethod *string `json:",omitempty"`
	AuthData   []byte  `json:",omitempty"`
	AuthReply  []byte  `json:",omitempty"` // connect: answer to the broker's AUTH(continue); reauth: data sent
	ReqProblem *byte   `json:",omitempty"`
	Ack        string  `json:",omitempty"` // ack policy for this connection: ""/prompt, never, late, reconly, norel, err
	AckDelay   Dur     `json:",omitempty"`
	ClientID   *string `json:",omitempty"` // override client id (e.g. empty id)
	Transport  string  `json:",omitempty"` // "" tcp | "ws"
	WSMode     int     `json:",omitempty"` // websocket segmentation mode + 1 (0 = drawn from the network PRNG)
	WSText     bool    `json:",omitempty"` // websocket: send text messages
	StayOpen   bool    `json:",omitempty"` // do not close the connection after a failing CONNACK
	AckDup     bool    `json:",omitempty"` // connect: now and then a PUBACK for a packet identifier that is not in use follows a real acknowledgement
	CarryAcks  bool    `json:",omitempty"`
	// Trigger: the operation is not issued at its turn but when the simulator fires the named trigger (e.g.
	// "hello>n1": a federation Hello reply is delivered to node n1); it is skipped if that does not happen within D.
	Trigger string `json:",omitempty"`
	Instant bool   `json:",omitempty"` // the packet reaches the broker in the instant it is sent // connect: acknowledgements held back on the previous connection are sent right behind CONNECT

	// subscribe / unsubscribe
	Subs    []mqttc.Sub `json:",omitempty"`
	SubID   uint32      `json:",omitempty"`
	Filters []string    `json:",omitempty"`

	// publish
	Topic       string      `json:",omitempty"`
	QoS         byte        `json:",omitempty"`
	Retain      bool        `json:",omitempty"`
	Dup         bool        `json:",omitempty"`
	Payload     string      `json:",omitempty"`
	PadTo       int         `json:",omitempty"` // pad payload with '.' to this many bytes
	MsgExpiry   *uint32     `json:",omitempty"`
	Alias       *uint16     `json:",omitempty"`
	NoTopic     bool        `json:",omitempty"` // send empty topic (alias use)
	PID         uint16      `json:",omitempty"` // explicit packet id (0 = allocate)
	HoldRel     bool        `json:",omitempty"` // QoS 2: do not answer PUBREC with PUBREL
	Repeat      int         `json:",omitempty"` // QoS 2: send the PUBLISH this many extra times (DUP=1) before PUBREL
	ContentType *string     `json:",omitempty"`
	RespTopic   *string     `json:",omitempty"`
	Corr        []byte      `json:",omitempty"`
	PFmt        *byte       `json:",omitempty"`
	UserProps   [][2]string `json:",omitempty"`

	// disconnect
	Code     byte    `json:",omitempty"`
	DiscExpS *uint32 `json:",omitempty"`
	// cut
	Mode string `json:",omitempty"` // fin | rst
	// raw
	Raw []byte `json:",omitempty"`
	// sleep / await_close timeout
	D Dur `json:",omitempty"`
	// api
	Target string `json:",omitempty"` // client id the API call refers to
	Node   int    `json:",omitempty"` // broker node (federation)
	Custom string `json:",omitempty"` // api_custom: name of a registered function

	PreConnect bool `json:",omitempty"` // send although the connection has no successful CONNACK
	NoWait     bool `json:",omitempty"` // do not wait for completion before the actor's next op
	Delay      Dur  `json:",omitempty"` // delay before issuing once eligible
	StallCap   int  `json:",omitempty"` // stall: outbound buffer bound
}

// Phase is a set of per-actor op sequences that run concurrently; the phase ends at quiescence.
type Phase struct {
	Ops      []Op
	Advance  Dur    `json:",omitempty"` // clock jump after the phase
	TimeoutS int    `json:",omitempty"` // simulated seconds before unfinished ops are abandoned (default 120)
	Note     string `json:",omitempty"`
}

// ClientSpec is the static part of a scripted client.
type ClientSpec struct {
	ID  string
	Ver byte
}

// Plan is one fully explicit simulated run: configuration, workload, faults and (optionally) schedule.
type Plan struct {
	Prop    string
	Seed    uint64
	Variant string `json:",omitempty"`
	Broker  BrokerCfg
	Net     NetCfg
	Sched   SchedCfg
	Clients []ClientSpec
	Phases  []Phase
	Final   string            `json:",omitempty"` // "" stop broker at the end | "nostop"
	Params  map[string]string `json:",omitempty"` // check specific
}

// Clone deep-copies a plan through JSON.
//
//go:norace
func (p *Plan) Clone() *Plan {
	b, _ := json.Marshal(p)
	var q Plan
	json.Unmarshal(b, &q)
	return &q
}

// NumOps counts operations.
//
//go:norace
func (p *Plan) NumOps() int {
	n := 0
	for _, ph := range p.Phases {
		n += len(ph.Ops)
	}
	return n
}

//go:norace
func U32(v uint32) *uint32 { return &v }

//go:norace
func U16(v uint16) *uint16 { return &v }

//go:norace
func Str(v string) *string { return &v }

//go:norace
func Int(v int) *int { return &v }

//go:norace
func B(v byte) *byte { return &v }
