package sim

import (
	"crypto/sha256"
	"encoding/hex"
	"fmt"
	"hash"
	"time"

	"verifsim/mqttc"
)

// Rec is one observable event of a run.
type Rec struct {
	I    int
	Step int           // global scheduler step at which it happened
	T    time.Duration // simulated time since the start of the run
	Kind string        // open tx rx bclose cclose api_inv api_ret hook phase timeout note
	C    int           // actor (client index) or -1
	Conn int           // connection id or -1
	Node int
	Pkt  *mqttc.Packet
	Op   int // op index (OpRec) or -1
	Note string
	Val  any // hook payloads etc.
	Size int // encoded size in bytes (tx and rx packet records)
}

// OpRec is the execution record of one plan operation.
type OpRec struct {
	Idx    int
	Phase  int
	Op     *Op
	Conn   int
	Issued bool
	Done   bool
	Inv    int // step at which the first byte reached the broker / the API call was released (-1 = never)
	Resp   int // step at which the acknowledgement was written by the broker / the call returned (-1 = never)
	InvT   time.Duration
	RespT  time.Duration
	Result string // ok | closed | timeout | err | skipped
	PID    uint16
	Ack    *mqttc.Packet
	Rec    *mqttc.Packet // PUBREC for QoS 2
	Sent   *mqttc.Packet
	Ret    any // API return value

	onDone    func()
	scheduled bool
}

// History is the recorded trace of a run.
type History struct {
	Recs []*Rec
	Ops  []*OpRec
	h    hash.Hash
}

//go:norace
func newHistory() *History { return &History{h: sha256.New()} }

// NewHistory creates an empty history (store-level checks that do not use World).
//
//go:norace
func NewHistory() *History { return newHistory() }

// Add appends a record.
//
//go:norace
func (h *History) Add(r *Rec) *Rec { return h.add(r) }

//go:norace
func (h *History) add(r *Rec) *Rec {
	r.I = len(h.Recs)
	h.Recs = append(h.Recs, r)
	fmt.Fprintf(h.h, "%d|%d|%s|%d|%d|%d|%s|", r.Step, r.T, r.Kind, r.C, r.Conn, r.Op, r.Note)
	if r.Pkt != nil {
		fmt.Fprintf(h.h, "%s|%x", r.Pkt.String(), r.Pkt.Payload)
		if r.Pkt.Props != nil {
			fmt.Fprintf(h.h, "|%+v", propsSig(r.Pkt.Props))
		}
	}
	h.h.Write([]byte{'\n'})
	return r
}

//go:norace
func propsSig(p *mqttc.Props) string {
	s := ""
	if p.TopicAlias != nil {
		s += fmt.Sprintf("ta%d", *p.TopicAlias)
	}
	if p.MessageExpiry != nil {
		s += fmt.Sprintf("me%d", *p.MessageExpiry)
	}
	s += fmt.Sprint(p.SubIDs)
	return s
}

// Hash returns the hash of everything recorded so far.
//
//go:norace
func (h *History) Hash() string { return hex.EncodeToString(h.h.Sum(nil)[:12]) }

// Violation is a failed oracle clause.
type Violation struct {
	Prop   string
	Clause string
	Msg    string
	Sig    string `json:",omitempty"` // signature used to match known findings
}

//go:norace
func (v Violation) String() string { return v.Prop + "." + v.Clause + ": " + v.Msg }
