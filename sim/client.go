package sim

import (
	"fmt"
	"sort"
	"strings"
	"time"

	"github.com/DrmagicE/gmqtt"
	"github.com/DrmagicE/gmqtt/persistence/subscription"
	"github.com/DrmagicE/gmqtt/pkg/packets"

	"verifsim/mqttc"
	"verifsim/simnet"
)

// cli is the runtime state of one scripted client (across its connections).
type cli struct {
	idx     int
	spec    *ClientSpec
	conn    *cconn
	nextPID uint16
	// client-side session state for QoS>0 publishes it sent (for the "retransmit" op)
	outPub map[uint16]*mqttc.Packet // PUBLISH sent, not yet PUBACK'ed / PUBREC'ed
	outRel map[uint16]bool          // PUBREC received (or PUBREL sent), PUBCOMP outstanding
}

var retransOp = &OpRec{Idx: -1, Done: true, Inv: 0, Op: &Op{K: "retransmit"}}

type outPkt struct {
	at          time.Time
	seq         int
	b           []byte
	off         int
	pkt         *mqttc.Packet
	op          *OpRec
	close       string // "fin"/"rst": close the connection instead of sending
	first       bool
	onDelivered func() // zero-length marker: called when everything before it was delivered
}

// cconn is the simulator side of one connection.
type cconn struct {
	id           int
	name         string
	cli          *cli
	c            *simnet.Conn
	node         int
	ver          byte
	parser       mqttc.Parser
	sendq        []*outPkt
	sendSeq      int
	dead         bool // fully finished: both sides closed and drained
	bclosed      bool // broker closed
	bcloseStep   int
	cclosed      bool // client closed
	ackMode      string
	ackDup       bool
	pipelined    bool // the packets sent now travel with the previous one (no latency of their own)
	ackDelay     time.Duration
	connectOp    *OpRec
	connack      *mqttc.Packet
	connackStep  int
	awaiting     map[string]*OpRec // "t<type>:<pid>" -> op waiting for that ack
	pings        []*OpRec
	reauths      []*OpRec
	closeWaiters []*OpRec
	heldRel      map[uint16]bool
	heldAcks     []*mqttc.Packet
	garbage      bool
	Transport    string
	ws           *wsClient
	RxBytes      int64
	TxBytes      int64
}

//go:norace
func key(t byte, pid uint16) string { return fmt.Sprintf("%d:%d", t, pid) }

// Conn returns the connection records (for oracles).
//
//go:norace
func (w *World) ConnCount() int { return len(w.conns) }

// ConnInfo describes a connection for oracles.
type ConnInfo struct {
	ID, Client, Node int
	Ver              byte
	BrokerClosed     bool
	BrokerCloseStep  int
	ClientClosed     bool
	Connack          *mqttc.Packet
	ConnackStep      int
	RxBytes, TxBytes int64
	Transport        string
}

// Conns lists all connections of the run.
//
//go:norace
func (w *World) Conns() []ConnInfo {
	var r []ConnInfo
	for _, c := range w.conns {
		ci := -1
		if c.cli != nil {
			ci = c.cli.idx
		}
		r = append(r, ConnInfo{c.id, ci, c.node, c.ver, c.bclosed, c.bcloseStep, c.cclosed, c.connack, c.connackStep, c.RxBytes, c.TxBytes, c.Transport})
	}
	return r
}

//go:norace
func (w *World) latency() time.Duration {
	n := w.Plan.Net
	if n.ZeroLat && w.netRng.IntN(2) == 0 {
		// the client's reaction arrives while the broker is still in the middle of what triggered it
		return 0
	}
	lo, hi := n.LatMinUs, n.LatMaxUs
	if hi <= lo {
		return time.Duration(lo+1) * time.Microsecond
	}
	return time.Duration(lo+1+w.netRng.IntN(hi-lo)) * time.Microsecond
}

// send queues a packet for delivery to the broker.
//
//go:norace
func (c *cconn) send(w *World, p *mqttc.Packet, op *OpRec, extra time.Duration) {
	if c.cclosed {
		return
	}
	b := mqttc.Encode(p, c.ver)
	c.sendRaw(w, b, p, op, extra)
}

//go:norace
func (c *cconn) sendRaw(w *World, b []byte, p *mqttc.Packet, op *OpRec, extra time.Duration) {
	if c.ws != nil && !c.ws.upgraded {
		// a WebSocket client sends no frame before it has seen the 101 response
		c.ws.waiting = append(c.ws.waiting, func() { c.sendRaw(w, b, p, op, extra) })
		return
	}
	if c.ws != nil {
		b = c.ws.frame(w, b)
		if len(c.ws.pending) > 0 && !c.ws.flushEv {
			c.ws.flushEv = true
			w.after(300*time.Microsecond, "ws-flush", func() {
				c.ws.flushEv = false
				if fb := c.ws.flushPending(w); fb != nil && !c.cclosed {
					c.enqueueRaw(w, fb)
				}
			})
		}
	}
	c.sendSeq++
	at := time.Now().Add(w.latency() + extra)
	if op != nil && op.Op != nil && op.Op.Instant || c.pipelined {
		at = time.Now() // (kept FIFO below: not before what is already queued)
	}
	// keep FIFO order unless an explicit extra delay asks for reordering
	if n := len(c.sendq); n > 0 && extra == 0 && at.Before(c.sendq[n-1].at) {
		at = c.sendq[n-1].at
	}
	e := &outPkt{at: at, seq: c.sendSeq, b: b, pkt: p, op: op, first: true}
	c.insert(e)
}

//go:norace
func (c *cconn) insert(e *outPkt) {
	i := len(c.sendq)
	for i > 0 && c.sendq[i-1].at.After(e.at) && c.sendq[i-1].off == 0 {
		i--
	}
	c.sendq = append(c.sendq, nil)
	copy(c.sendq[i+1:], c.sendq[i:])
	c.sendq[i] = e
}

//go:norace
func (c *cconn) closeAfterSend(w *World, mode string) {
	c.sendSeq++
	at := time.Now().Add(w.latency())
	if n := len(c.sendq); n > 0 && at.Before(c.sendq[n-1].at) {
		at = c.sendq[n-1].at
	}
	c.sendq = append(c.sendq, &outPkt{at: at, seq: c.sendSeq, close: mode})
}

// deliverNext moves the next chunk of the head packet (or a close) to the broker side.
//
//go:norace
func (c *cconn) deliverNext(w *World) {
	if len(c.sendq) == 0 {
		return
	}
	h := c.sendq[0]
	if h.close != "" {
		c.sendq = c.sendq[1:]
		c.clientClose(w, h.close)
		return
	}
	if c.bclosed || c.cclosed {
		// nobody reads any more
		c.dropQueue(w)
		return
	}
	if h.onDelivered != nil {
		c.sendq = c.sendq[1:]
		h.onDelivered()
		return
	}
	n := len(h.b) - h.off
	mode := w.Plan.Net.ChunkMode
	switch mode {
	case 1:
		if n > 1 && w.netRng.IntN(3) > 0 {
			n = 1 + w.netRng.IntN(n)
			w.Faults["net.chunk"]++
		}
	case 2:
		if len(h.b) <= 64 && n > 1 {
			n = 1
			w.Faults["net.chunk"]++
		} else if n > 1 {
			n = 1 + w.netRng.IntN(n)
			w.Faults["net.chunk"]++
		}
	}
	chunk := h.b[h.off : h.off+n]
	if h.off == 0 && h.op != nil && h.op.Inv < 0 && h.first {
		h.op.Inv = w.S.StepCnt
		h.op.InvT = w.Now()
	}
	h.off += n
	done := h.off >= len(h.b)
	var more []byte
	if done {
		c.sendq = c.sendq[1:]
		if h.pkt != nil {
			w.rec(&Rec{Kind: "tx", C: c.cliIdx(), Conn: c.id, Node: c.node, Pkt: h.pkt, Op: opIdx(h.op), Size: len(h.b)})
		}
		// coalesce following packets that are already due
		if mode == 3 {
			now := time.Now()
			for len(c.sendq) > 0 && c.sendq[0].close == "" && c.sendq[0].onDelivered == nil && !c.sendq[0].at.After(now) {
				x := c.sendq[0]
				c.sendq = c.sendq[1:]
				if x.op != nil && x.op.Inv < 0 {
					x.op.Inv = w.S.StepCnt
					x.op.InvT = w.Now()
				}
				more = append(more, x.b...)
				if x.pkt != nil {
					w.rec(&Rec{Kind: "tx", C: c.cliIdx(), Conn: c.id, Node: c.node, Pkt: x.pkt, Op: opIdx(x.op), Size: len(x.b)})
				}
				w.Faults["net.coalesce"]++
			}
		}
	} else {
		// the rest of this packet follows after a small delay
		h.at = time.Now().Add(time.Duration(1+w.netRng.IntN(50)) * time.Microsecond)
	}
	buf := append(append([]byte{}, chunk...), more...)
	c.TxBytes += int64(len(buf))
	c.c.Deliver(buf)
}

//go:norace
func opIdx(o *OpRec) int {
	if o == nil {
		return -1
	}
	return o.Idx
}

//go:norace
func (c *cconn) cliIdx() int {
	if c.cli == nil {
		return -1
	}
	return c.cli.idx
}

//go:norace
func (c *cconn) clientClose(w *World, mode string) {
	if c.cclosed {
		return
	}
	c.cclosed = true
	if mode == "rst" {
		c.c.PeerReset()
		w.Fault("net.cut.rst")
	} else {
		c.c.PeerClose()
	}
	w.rec(&Rec{Kind: "cclose", C: c.cliIdx(), Conn: c.id, Node: c.node, Op: -1, Note: mode})
	c.dropQueue(w)
	c.failPending(w, "closed")
}

//go:norace
func (c *cconn) failPending(w *World, why string) {
	// deterministic order: by op index
	var ops []*OpRec
	for _, o := range c.awaiting {
		ops = append(ops, o)
	}
	c.awaiting = map[string]*OpRec{}
	ops = append(ops, c.pings...)
	c.pings = nil
	ops = append(ops, c.reauths...)
	c.reauths = nil
	if c.connectOp != nil && !c.connectOp.Done {
		ops = append(ops, c.connectOp)
	}
	sortOps(ops)
	for _, o := range ops {
		w.finish(o, why)
	}
}

//go:norace
func sortOps(ops []*OpRec) {
	for i := 1; i < len(ops); i++ {
		for j := i; j > 0 && ops[j-1].Idx > ops[j].Idx; j-- {
			ops[j-1], ops[j] = ops[j], ops[j-1]
		}
	}
}

// drain consumes what the broker wrote and feeds the client state machine.
//
//go:norace
func (c *cconn) drain(w *World) {
	segs := c.c.TakeSegs()
	for _, sg := range segs {
		c.RxBytes += int64(len(sg.B))
		data := sg.B
		if c.ws != nil {
			var err error
			was := c.ws.upgraded
			data, err = c.ws.unframe(w, c, data, sg.Step)
			if !was && c.ws.upgraded {
				q := c.ws.waiting
				c.ws.waiting = nil
				for _, f := range q {
					f()
				}
			}
			if err != nil {
				w.rec(&Rec{Kind: "note", C: c.cliIdx(), Conn: c.id, Op: -1, Step: sg.Step, Note: "ws error: " + err.Error()})
				continue
			}
			if len(data) == 0 {
				continue
			}
		}
		if c.garbage {
			continue
		}
		pkts, err := c.parser.Feed(data)
		for _, p := range pkts {
			w.rec(&Rec{Kind: "rx", C: c.cliIdx(), Conn: c.id, Node: c.node, Pkt: p, Op: -1, Step: sg.Step, Size: p.Size})
			c.onPacket(w, p, sg.Step)
		}
		if err != nil {
			c.garbage = true
			w.Violate(w.Plan.Prop, "wire", "conn %s: broker sent bytes the independent decoder rejects: %v (segment %x, protocol level %d)", c.name, err, data, c.parser.Ver)
		}
	}
	if !c.bclosed && c.c.Closed() {
		c.bclosed = true
		c.bcloseStep = c.c.CloseStep
		w.rec(&Rec{Kind: "bclose", C: c.cliIdx(), Conn: c.id, Node: c.node, Op: -1, Step: c.c.CloseStep})
		for _, o := range c.closeWaiters {
			w.complete(o, c.c.CloseStep)
		}
		c.closeWaiters = nil
		c.dropQueue(w)
		c.failPending(w, "closed")
		if !c.cclosed {
			// the scripted client notices the close and closes its side too
			c.cclosed = true
			c.c.PeerClose()
		}
	}
	if c.bclosed && c.cclosed {
		c.dead = true
	}
}

//go:norace
func (c *cconn) ackLater(w *World, p *mqttc.Packet) {
	switch c.ackMode {
	case "never":
		w.Faults["client.ack_never"]++
		return
	case "hold":
		c.heldAcks = append(c.heldAcks, p)
		return
	case "late":
		w.Faults["client.ack_late"]++
		c.send(w, p, nil, c.ackDelay+time.Duration(w.netRng.IntN(int(c.ackDelay/time.Microsecond)+1))*time.Microsecond)
		return
	}
	c.send(w, p, nil, 0)
	if c.ackDup && (p.Type == mqttc.PUBACK || p.Type == mqttc.PUBCOMP) {
		// a client that acknowledges a packet identifier nobody uses (far from every identifier in use). A repeated
		// acknowledgement of a real identifier is not generated: the broker may have re-used the identifier by the
		// time it arrives and legitimately counts it for the new message, which no oracle can tell apart.
		if w.netRng.IntN(3) == 0 {
			w.Faults["client.ack_stray"]++
			c.send(w, &mqttc.Packet{Type: mqttc.PUBACK, PID: p.PID + 20000}, nil, 0)
		}
	}
}

// onPacket is the scripted client's reaction to a packet from the broker.
//
//go:norace
func (c *cconn) onPacket(w *World, p *mqttc.Packet, step int) {
	switch p.Type {
	case mqttc.CONNACK:
		c.connack = p
		c.connackStep = step
		if c.cli != nil && (!p.SessionPresent || p.Code != 0) {
			c.cli.outPub, c.cli.outRel = nil, nil
		}
		if o := c.connectOp; o != nil {
			o.Ack = p
			w.complete(o, step)
			if p.Code != 0 && !o.Op.StayOpen && !c.cclosed {
				// a refused client closes its connection
				c.closeAfterSend(w, "fin")
			}
		}
	case mqttc.PUBLISH:
		if p.QoS == 1 {
			a := &mqttc.Packet{Type: mqttc.PUBACK, PID: p.PID}
			if c.ackMode == "err" && c.ver == mqttc.V5 {
				a.Code = 0x80
				w.Faults["client.ack_error_code"]++
			}
			c.ackLater(w, a)
		} else if p.QoS == 2 {
			a := &mqttc.Packet{Type: mqttc.PUBREC, PID: p.PID}
			if c.ackMode == "err" && c.ver == mqttc.V5 {
				a.Code = 0x80
				w.Faults["client.ack_error_code"]++
			}
			c.ackLater(w, a)
		}
	case mqttc.PUBREL:
		if c.ackMode == "reconly" {
			w.Faults["client.ack_never"]++
			return
		}
		c.ackLater(w, &mqttc.Packet{Type: mqttc.PUBCOMP, PID: p.PID})
	case mqttc.PUBACK:
		if c.cli != nil {
			delete(c.cli.outPub, p.PID)
		}
		if o := c.awaiting[key(mqttc.PUBACK, p.PID)]; o != nil {
			delete(c.awaiting, key(mqttc.PUBACK, p.PID))
			o.Ack = p
			w.complete(o, step)
		}
	case mqttc.PUBREC:
		if c.cli != nil {
			delete(c.cli.outPub, p.PID)
			if p.Code < 0x80 {
				if c.cli.outRel == nil {
					c.cli.outRel = map[uint16]bool{}
				}
				c.cli.outRel[p.PID] = true
			}
		}
		if o := c.awaiting[key(mqttc.PUBREC, p.PID)]; o != nil {
			delete(c.awaiting, key(mqttc.PUBREC, p.PID))
			o.Rec = p
			if p.Code >= 0x80 {
				o.Ack = p
				w.complete(o, step)
				return
			}
			if o.Op.HoldRel {
				c.heldRel[p.PID] = true
				o.Ack = p
				w.complete(o, step) // the op is "PUBLISH acknowledged by PUBREC"; PUBREL is a later op
				return
			}
			c.awaiting[key(mqttc.PUBCOMP, p.PID)] = o
			c.send(w, &mqttc.Packet{Type: mqttc.PUBREL, PID: p.PID}, nil, 0)
		}
	case mqttc.PUBCOMP:
		if c.cli != nil {
			delete(c.cli.outRel, p.PID)
		}
		if o := c.awaiting[key(mqttc.PUBCOMP, p.PID)]; o != nil {
			delete(c.awaiting, key(mqttc.PUBCOMP, p.PID))
			o.Ack = p
			w.complete(o, step)
		}
	case mqttc.SUBACK:
		if o := c.awaiting[key(mqttc.SUBACK, p.PID)]; o != nil {
			delete(c.awaiting, key(mqttc.SUBACK, p.PID))
			o.Ack = p
			w.complete(o, step)
		}
	case mqttc.UNSUBACK:
		if o := c.awaiting[key(mqttc.UNSUBACK, p.PID)]; o != nil {
			delete(c.awaiting, key(mqttc.UNSUBACK, p.PID))
			o.Ack = p
			w.complete(o, step)
		}
	case mqttc.PINGRESP:
		if len(c.pings) > 0 {
			o := c.pings[0]
			c.pings = c.pings[1:]
			o.Ack = p
			w.complete(o, step)
		}
	case mqttc.AUTH:
		if o := c.connectOp; o != nil && !o.Done && o.Op.AuthReply != nil && p.Code == 0x18 {
			c.send(w, &mqttc.Packet{Type: mqttc.AUTH, Code: 0x18, Props: &mqttc.Props{AuthMethod: o.Op.AuthMethod, AuthData: o.Op.AuthReply, HasAuthData: true}}, nil, 0)
			return
		}
		if len(c.reauths) > 0 {
			o := c.reauths[0]
			c.reauths = c.reauths[1:]
			o.Ack = p
			w.complete(o, step)
		}
	case mqttc.DISCONNECT:
	}
}

//go:norace
func (cl *cli) allocPID() uint16 {
	p := cl.nextPID
	cl.nextPID++
	if cl.nextPID == 0 {
		cl.nextPID = 1
	}
	return p
}

//go:norace
func pubProps(op *Op) *mqttc.Props {
	pr := &mqttc.Props{}
	pr.MessageExpiry = op.MsgExpiry
	pr.TopicAlias = op.Alias
	pr.ContentType = op.ContentType
	pr.ResponseTopic = op.RespTopic
	if op.Corr != nil {
		pr.CorrelationData = op.Corr
		pr.HasCorrelationData = true
	}
	pr.PayloadFormat = op.PFmt
	pr.User = op.UserProps
	return pr
}

// PayloadOf returns the payload bytes a publish op sends.
//
//go:norace
func PayloadOf(op *Op) []byte {
	b := []byte(op.Payload)
	for len(b) < op.PadTo {
		b = append(b, '.')
	}
	return b
}

// issue starts one operation.
//
//go:norace
func (w *World) issue(o *OpRec) {
	op := o.Op
	if op.C < 0 {
		w.issueAPI(o)
		return
	}
	if op.C >= len(w.clients) {
		w.finish(o, "skipped")
		return
	}
	cl := w.clients[op.C]
	switch op.K {
	case "sleep":
		w.after(op.D.D(), "sleep", func() { w.complete(o, w.S.StepCnt) })
		return
	case "connect", "connect_silent", "connect_raw":
		w.connect(cl, o)
		return
	}
	c := cl.conn
	if c == nil || c.cclosed || c.bclosed {
		w.finish(o, "skipped")
		return
	}
	if (c.connack == nil || c.connack.Code != 0) && !op.PreConnect && op.K != "raw" && op.K != "cut" && op.K != "await_close" {
		// a conforming client sends nothing before a successful CONNACK (PreConnect overrides)
		w.finish(o, "skipped")
		return
	}
	o.Conn = c.id
	v5 := c.ver == mqttc.V5
	switch op.K {
	case "subscribe":
		pid := op.PID
		if pid == 0 {
			pid = cl.allocPID()
		}
		o.PID = pid
		p := &mqttc.Packet{Type: mqttc.SUBSCRIBE, PID: pid, Subs: op.Subs}
		if v5 {
			p.Props = &mqttc.Props{}
			if op.SubID != 0 {
				p.Props.SubIDs = []uint32{op.SubID}
			}
		}
		o.Sent = p
		c.awaiting[key(mqttc.SUBACK, pid)] = o
		c.send(w, p, o, 0)
	case "unsubscribe":
		pid := op.PID
		if pid == 0 {
			pid = cl.allocPID()
		}
		o.PID = pid
		p := &mqttc.Packet{Type: mqttc.UNSUBSCRIBE, PID: pid, Filters: op.Filters}
		if v5 {
			p.Props = &mqttc.Props{}
		}
		o.Sent = p
		c.awaiting[key(mqttc.UNSUBACK, pid)] = o
		c.send(w, p, o, 0)
	case "publish":
		p := &mqttc.Packet{Type: mqttc.PUBLISH, Topic: op.Topic, QoS: op.QoS, Retain: op.Retain, Dup: op.Dup, Payload: PayloadOf(op)}
		if op.NoTopic {
			p.Topic = ""
		}
		if v5 {
			p.Props = pubProps(op)
		}
		if op.QoS > 0 {
			pid := op.PID
			if pid == 0 {
				pid = cl.allocPID()
			}
			o.PID = pid
			p.PID = pid
			if op.QoS == 1 {
				c.awaiting[key(mqttc.PUBACK, pid)] = o
			} else {
				c.awaiting[key(mqttc.PUBREC, pid)] = o
			}
			if cl.outPub == nil {
				cl.outPub = map[uint16]*mqttc.Packet{}
			}
			cl.outPub[pid] = p
		}
		o.Sent = p
		c.send(w, p, o, 0)
		for i := 0; i < op.Repeat; i++ {
			d := *p
			d.Dup = true
			c.send(w, &d, nil, 0)
			w.Faults["client.dup_publish"]++
		}
		if op.QoS == 0 {
			// complete when the last byte is delivered: tracked by a zero-length marker
			c.markDelivered(w, o)
		}
	case "pubrel":
		p := &mqttc.Packet{Type: mqttc.PUBREL, PID: op.PID}
		o.PID = op.PID
		o.Sent = p
		c.awaiting[key(mqttc.PUBCOMP, op.PID)] = o
		c.send(w, p, o, 0)
		for i := 0; i < op.Repeat; i++ {
			c.send(w, &mqttc.Packet{Type: mqttc.PUBREL, PID: op.PID}, nil, 0)
			w.Faults["client.dup_pubrel"]++
		}
	case "retransmit":
		// what a conforming client does after resuming its session: PUBLISH packets without PUBACK/PUBREC
		// again with DUP=1, PUBREL for those already PUBREC'ed, in packet id order
		var pids []int
		for pid := range cl.outPub {
			pids = append(pids, int(pid))
		}
		sort.Ints(pids)
		for _, pid := range pids {
			d := *cl.outPub[uint16(pid)]
			d.Dup = true
			if d.QoS == 1 {
				c.awaiting[key(mqttc.PUBACK, d.PID)] = retransOp
			} else {
				c.awaiting[key(mqttc.PUBREC, d.PID)] = retransOp
			}
			c.send(w, &d, nil, 0)
			w.Faults["client.retransmit_publish"]++
		}
		pids = nil
		for pid := range cl.outRel {
			pids = append(pids, int(pid))
		}
		sort.Ints(pids)
		for _, pid := range pids {
			c.awaiting[key(mqttc.PUBCOMP, uint16(pid))] = retransOp
			c.send(w, &mqttc.Packet{Type: mqttc.PUBREL, PID: uint16(pid)}, nil, 0)
			w.Faults["client.retransmit_pubrel"]++
		}
		c.markDelivered(w, o)
	case "release_acks":
		held := c.heldAcks
		c.heldAcks = nil
		if op.Mode == "reverse" {
			for i, j := 0, len(held)-1; i < j; i, j = i+1, j-1 {
				held[i], held[j] = held[j], held[i]
			}
			w.Faults["client.ack_reorder"]++
		}
		for _, a := range held {
			c.send(w, a, nil, 0)
		}
		if op.Ack != "" {
			c.ackMode = op.Ack
		}
		c.markDelivered(w, o)
	case "reauth":
		p := &mqttc.Packet{Type: mqttc.AUTH, Code: 0x19, Props: &mqttc.Props{AuthMethod: op.AuthMethod, AuthData: op.AuthReply, HasAuthData: op.AuthReply != nil}}
		o.Sent = p
		c.reauths = append(c.reauths, o)
		c.send(w, p, o, 0)
	case "ping":
		p := &mqttc.Packet{Type: mqttc.PINGREQ}
		o.Sent = p
		c.pings = append(c.pings, o)
		c.send(w, p, o, 0)
	case "disconnect":
		p := &mqttc.Packet{Type: mqttc.DISCONNECT, Code: op.Code}
		if v5 && op.DiscExpS != nil {
			p.Props = &mqttc.Props{SessionExpiry: op.DiscExpS}
		}
		o.Sent = p
		c.send(w, p, o, 0)
		c.closeAfterSend(w, "fin")
		c.closeWaiters = append(c.closeWaiters, o)
		w.FireTrigger(fmt.Sprintf("disconnect>%d", op.C)) // operations of other clients may wait for this moment
	case "cut":
		mode := op.Mode
		if mode == "" {
			mode = "rst"
		}
		o.Inv = w.S.StepCnt
		o.InvT = w.Now()
		c.clientClose(w, mode)
		w.Fault("net.cut")
		w.complete(o, w.S.StepCnt)
	case "raw":
		o.Sent = nil
		c.sendRaw(w, op.Raw, nil, o, 0)
		c.markDelivered(w, o)
	case "await_close":
		if c.bclosed {
			w.complete(o, c.bcloseStep)
			return
		}
		c.closeWaiters = append(c.closeWaiters, o)
		if d := op.D.D(); d > 0 {
			w.after(d, "await-timeout", func() {
				if !o.Done {
					w.finish(o, "timeout")
				}
			})
		}
	case "stall":
		c.c.SetStall(true, op.StallCap)
		w.Fault("net.stall")
		w.complete(o, w.S.StepCnt)
	case "unstall":
		c.c.SetStall(false, 0)
		w.complete(o, w.S.StepCnt)
	default:
		w.finish(o, "skipped")
	}
}

// markDelivered completes o when everything queued so far on c has been delivered.
//
//go:norace
func (c *cconn) markDelivered(w *World, o *OpRec) {
	c.sendSeq++
	at := time.Now()
	if n := len(c.sendq); n > 0 {
		at = c.sendq[n-1].at
	}
	c.sendq = append(c.sendq, &outPkt{at: at, seq: c.sendSeq, op: o, onDelivered: func() {
		if o.Inv < 0 {
			o.Inv = w.S.StepCnt
			o.InvT = w.Now()
		}
		w.complete(o, w.S.StepCnt)
	}})
}

// dropQueue discards everything not yet delivered (the connection is gone).
//
//go:norace
func (c *cconn) dropQueue(w *World) {
	q := c.sendq
	c.sendq = nil
	for _, e := range q {
		if e.onDelivered != nil && e.op != nil {
			w.finish(e.op, "closed")
		}
	}
}

//go:norace
func (w *World) connect(cl *cli, o *OpRec) {
	op := o.Op
	ver := cl.spec.Ver
	if op.Ver != 0 {
		ver = op.Ver
	}
	node := op.Node
	if node >= len(w.Nodes) {
		node = 0
	}
	id := len(w.conns)
	name := fmt.Sprintf("c%d.%d", cl.idx, id)
	c := &cconn{id: id, name: name, cli: cl, node: node, ver: ver, awaiting: map[string]*OpRec{}, heldRel: map[uint16]bool{}, Transport: op.Transport}
	c.c = simnet.NewConn(w.S, id, name)
	c.parser.Ver = ver
	c.ackMode = op.Ack
	c.ackDup = op.AckDup
	c.ackDelay = op.AckDelay.D()
	prev := cl.conn
	w.conns = append(w.conns, c)
	// a client that still has an open connection abandons it silently (half-open) — it stays open on the broker side
	cl.conn = c
	o.Conn = id
	c.connectOp = o
	nd := w.Nodes[node]
	ln := nd.Ln
	if op.Transport == "ws" {
		ln = nd.WsLn
		c.ws = newWSClient(w)
		if op.WSMode != 0 {
			c.ws.mode = op.WSMode - 1
		}
		c.ws.textMode = op.WSText
	}
	if ln == nil || !ln.Push(c.c) {
		// the listener is closed: the connection attempt is refused, the broker never sees it
		w.rec(&Rec{Kind: "note", C: cl.idx, Conn: id, Node: node, Op: o.Idx, Note: "connection refused (listener closed)"})
		c.bclosed, c.cclosed, c.dead = true, true, true
		w.finish(o, "closed")
		return
	}
	w.rec(&Rec{Kind: "open", C: cl.idx, Conn: id, Node: node, Op: o.Idx})
	if c.ws != nil {
		c.ws.handshake(w, c)
	}
	if op.K == "connect_silent" {
		w.complete(o, w.S.StepCnt)
		return
	}
	if op.K == "connect_raw" {
		// no CONNECT is sent: the broker cannot know the protocol version and answers in the 3.1.1 format
		c.parser.Ver = 4
		c.sendRaw(w, op.Raw, nil, o, 0)
		c.markDelivered(w, o)
		return
	}
	cid := cl.spec.ID
	if op.ClientID != nil {
		cid = *op.ClientID
	}
	p := &mqttc.Packet{Type: mqttc.CONNECT, Level: ver, CleanStart: op.Clean, KeepAlive: op.KeepAlive, ClientID: cid}
	if op.User != nil {
		p.HasUser = true
		p.Username = *op.User
	}
	if op.Pass != nil {
		p.HasPass = true
		p.Password = []byte(*op.Pass)
	}
	if ver == mqttc.V5 {
		p.Props = &mqttc.Props{SessionExpiry: op.ExpiryS, ReceiveMax: op.RecvMax, TopicAliasMax: op.AliasMax, MaxPacketSize: op.MaxPkt, AuthMethod: op.AuthMethod, RequestProblemInfo: op.ReqProblem}
		if op.AuthData != nil {
			p.Props.AuthData = op.AuthData
			p.Props.HasAuthData = true
		}
	}
	if wl := op.Will; wl != nil {
		p.WillFlag = true
		p.WillTopic = wl.Topic
		p.WillPayload = []byte(wl.Payload)
		p.WillQoS = wl.QoS
		p.WillRetain = wl.Retain
		if ver == mqttc.V5 {
			p.WillProps = &mqttc.Props{WillDelay: wl.DelayS, MessageExpiry: wl.ExpiryS, ContentType: wl.ContentType, User: wl.User,
				ResponseTopic: wl.RespTopic, CorrelationData: wl.Corr, HasCorrelationData: wl.Corr != nil, PayloadFormat: wl.PFmt}
		}
	}
	o.Sent = p
	c.send(w, p, o, 0)
	if op.CarryAcks && prev != nil && len(prev.heldAcks) > 0 {
		// acknowledgements of messages received on the previous connection, pipelined behind CONNECT
		n := 0
		for _, a := range prev.heldAcks {
			if a.Type == mqttc.PUBACK { // final QoS 1 acknowledgements only: a carried PUBREC would fork the QoS 2 state
				// in the same segment as the CONNECT (no latency of their own): the broker finds them in its
				// receive buffer the moment the session is resumed, before or after it replays the in-flight entries
				c.pipelined = true
				c.send(w, a, nil, 0)
				c.pipelined = false
				n++
			}
		}
		prev.heldAcks = nil
		if n > 0 {
			w.Faults["client.ack_behind_connect"]++
		}
	}
}

// ---------------------------------------------------------------- API actors

// APIResult carries the outcome of an API op.
type APIResult struct {
	Err  string
	Subs []SubView
	Val  any
}

// SubView is a subscription as the broker reports it.
type SubView struct {
	Client       string
	Share        string
	Filter       string
	QoS          byte
	NoLocal, RAP bool
	RH           byte
	ID           uint32
}

//go:norace
func toSubs(ss []mqttc.Sub, id uint32) []*gmqtt.Subscription {
	var r []*gmqtt.Subscription
	for _, s := range ss {
		share, filter := SplitShare(s.Filter)
		r = append(r, &gmqtt.Subscription{ShareName: share, TopicFilter: filter, ID: id, QoS: s.QoS, NoLocal: s.NoLocal, RetainAsPublished: s.RAP, RetainHandling: s.RH})
	}
	return r
}

// SplitShare splits "$share/<group>/<filter>" into group and filter.
//
//go:norace
func SplitShare(f string) (share, filter string) {
	if strings.HasPrefix(f, "$share/") {
		rest := f[len("$share/"):]
		if i := strings.IndexByte(rest, '/'); i >= 0 {
			return rest[:i], rest[i+1:]
		}
	}
	return "", f
}

//go:norace
func (w *World) issueAPI(o *OpRec) {
	op := o.Op
	if op.K == "sleep" {
		w.after(op.D.D(), "sleep", func() { w.complete(o, w.S.StepCnt) })
		return
	}
	node := op.Node
	if node >= len(w.Nodes) {
		node = 0
	}
	nd := w.Nodes[node]
	if op.K == "api_stop" {
		o.Inv = w.S.StepCnt
		w.rec(&Rec{Kind: "api_inv", C: op.C, Conn: -1, Op: o.Idx, Note: op.K})
		w.StopNode(node, 5*time.Second, func() {
			w.rec(&Rec{Kind: "api_ret", C: op.C, Conn: -1, Op: o.Idx, Note: op.K})
			w.complete(o, w.S.StepCnt)
		})
		return
	}
	if op.K == "api_start" {
		o.Inv = w.S.StepCnt
		w.rec(&Rec{Kind: "api_inv", C: op.C, Conn: -1, Op: o.Idx, Note: op.K})
		w.StartNode(node)
		w.complete(o, w.S.StepCnt)
		return
	}
	srv := nd.Srv
	if srv == nil {
		w.finish(o, "skipped")
		return
	}
	w.apiBusy++
	w.Faults["api.concurrent_call"]++
	w.S.Go("api:"+op.K, w.caller(func() {
		o.Inv = w.S.StepCnt
		o.InvT = w.Now()
		w.rec(&Rec{Kind: "api_inv", C: op.C, Conn: -1, Op: o.Idx, Note: op.K})
		res := &APIResult{}
		switch op.K {
		case "api_publish":
			msg := &gmqtt.Message{Topic: op.Topic, QoS: op.QoS, Retained: op.Retain, Payload: PayloadOf(op)}
			if op.MsgExpiry != nil {
				msg.MessageExpiry = *op.MsgExpiry
			}
			if op.ContentType != nil {
				msg.ContentType = *op.ContentType
			}
			if op.RespTopic != nil {
				msg.ResponseTopic = *op.RespTopic
			}
			if op.PFmt != nil {
				msg.PayloadFormat = *op.PFmt
			}
			msg.CorrelationData = op.Corr
			for _, kv := range op.UserProps {
				msg.UserProperties = append(msg.UserProperties, packets.UserProperty{K: []byte(kv[0]), V: []byte(kv[1])})
			}
			srv.Publisher().Publish(msg)
		case "api_subscribe":
			_, err := srv.SubscriptionService().Subscribe(op.Target, toSubs(op.Subs, op.SubID)...)
			if err != nil {
				res.Err = err.Error()
			}
		case "api_unsubscribe":
			if err := srv.SubscriptionService().Unsubscribe(op.Target, op.Filters...); err != nil {
				res.Err = err.Error()
			}
		case "api_unsuball":
			if err := srv.SubscriptionService().UnsubscribeAll(op.Target); err != nil {
				res.Err = err.Error()
			}
		case "api_terminate":
			srv.ClientService().TerminateSession(op.Target)
		case "api_close":
			if c := srv.ClientService().GetClient(op.Target); c != nil {
				c.Close()
			}
		case "api_iterate":
			srv.SubscriptionService().Iterate(func(clientID string, sub *gmqtt.Subscription) bool {
				res.Subs = append(res.Subs, SubView{clientID, sub.ShareName, sub.TopicFilter, sub.QoS, sub.NoLocal, sub.RetainAsPublished, sub.RetainHandling, sub.ID})
				return true
			}, subscription.IterationOptions{Type: subscription.TypeAll, MatchType: subscription.MatchFilter, TopicName: op.Topic, ClientID: op.Target})
		case "api_stats":
			res.Val = srv.StatsManager().GetGlobalStats()
		case "api_custom":
			if f := w.Setup.Custom[op.Custom]; f != nil {
				res.Val = f(w, op)
			}
		}
		o.Ret = res
		w.rec(&Rec{Kind: "api_ret", C: op.C, Conn: -1, Op: o.Idx, Note: op.K, Val: res})
		w.apiBusy--
		w.complete(o, w.S.StepCnt)
	}))
}
