// Package simredis is an in-process model of the redis server for the simulator. The broker's real
// redigo client code talks RESP to it over an in-memory net.Conn (Dial replaces redigo.Dial, rule
// R6). Every command flush is a scheduling point; every mutating command is journaled so that the
// store after any prefix of commands ("the broker died between two commands") can be materialised.
package simredis

import (
	"bytes"
	"errors"
	"fmt"
	"io"
	"math/rand/v2"
	"net"
	"sort"
	"strconv"
	"strings"
	"sync"
	"time"

	redigo "github.com/gomodule/redigo/redis"

	"verifsim/simrt"
)

type val struct {
	hash   map[string][]byte
	order  []string // hash field insertion order
	list   [][]byte
	isList bool
}

// Entry is one mutating command of the journal.
type Entry struct {
	N    int // command number (all commands, 1-based)
	Step int
	Args [][]byte
}

//go:norace
func (e Entry) String() string {
	var parts []string
	for i, a := range e.Args {
		if i > 2 && len(a) > 24 {
			parts = append(parts, fmt.Sprintf("<%dB>", len(a)))
		} else {
			parts = append(parts, string(a))
		}
	}
	return strings.Join(parts, " ")
}

// Server is one simulated redis instance.
type Server struct {
	mu      sync.Mutex
	data    map[string]*val
	Journal []Entry
	Cmds    int // commands executed (all kinds)
	Epoch   int // connections dialled in an older epoch are dead (the broker they belonged to crashed)
	rng     *rand.Rand
	// ReplyLatMaxUs > 0: every reply becomes readable a seeded 1..ReplyLatMaxUs microseconds after its command
	ReplyLatMaxUs int

	// faults
	ErrMatch string       // "<command> <key prefix>" (lower case command): such commands are answered with an error reply half of the time
	ErrAt    map[int]bool // command numbers answered with an error reply
	DropAt   map[int]bool // command numbers at which the connection breaks (command not executed)
	CrashAt  int          // command number at which the broker process "dies": not executed, epoch advances
	OnCrash  func()       // called (once) when CrashAt is reached
	Fired    map[string]int
	crashed  bool
}

// NewServer creates an empty store.
//
//go:norace
func NewServer(seed uint64) *Server {
	return &Server{data: map[string]*val{}, rng: rand.New(rand.NewPCG(seed, 0x72656469)), ErrAt: map[int]bool{}, DropAt: map[int]bool{}, Fired: map[string]int{}}
}

var (
	gmu sync.Mutex
	cur *Server
)

// Install makes s the server that Dial connects to (nil: Dial fails).
//
//go:norace
func Install(s *Server) {
	gmu.Lock()
	cur = s
	gmu.Unlock()
}

//go:norace
func current() *Server {
	gmu.Lock()
	defer gmu.Unlock()
	return cur
}

// FromJournal materialises the store after the given journal prefix.
//
//go:norace
func FromJournal(j []Entry, seed uint64) *Server {
	s := NewServer(seed)
	for _, e := range j {
		s.exec(e.Args, true)
	}
	s.Journal = nil
	s.Cmds = 0
	return s
}

// Snapshot returns a printable view of the store (sorted), for oracles and replay files.
//
//go:norace
func (s *Server) Snapshot() map[string]any {
	s.mu.Lock()
	defer s.mu.Unlock()
	out := map[string]any{}
	for k, v := range s.data {
		if v.isList {
			var l []string
			for _, e := range v.list {
				l = append(l, fmt.Sprintf("%x", e))
			}
			out[k] = l
		} else {
			h := map[string]string{}
			for f, x := range v.hash {
				h[f] = string(x)
			}
			out[k] = h
		}
	}
	return out
}

// Keys returns the sorted keys.
//
//go:norace
func (s *Server) Keys() []string {
	s.mu.Lock()
	defer s.mu.Unlock()
	var ks []string
	for k := range s.data {
		ks = append(ks, k)
	}
	sort.Strings(ks)
	return ks
}

// ListLen returns the length of a list key.
//
//go:norace
func (s *Server) ListLen(key string) int {
	s.mu.Lock()
	defer s.mu.Unlock()
	if v := s.data[key]; v != nil {
		return len(v.list)
	}
	return 0
}

// JournalLen returns the number of mutating commands so far.
//
//go:norace
func (s *Server) JournalLen() int {
	s.mu.Lock()
	defer s.mu.Unlock()
	return len(s.Journal)
}

// Crash kills the current epoch: every existing connection fails from now on.
//
//go:norace
func (s *Server) Crash() {
	s.mu.Lock()
	s.Epoch++
	s.mu.Unlock()
}

type reply struct{ b []byte }

//go:norace
func (r *reply) status(x string) { r.b = append(r.b, "+"+x+"\r\n"...) }

//go:norace
func (r *reply) errorf(x string) { r.b = append(r.b, "-ERR "+x+"\r\n"...) }

//go:norace
func (r *reply) integer(n int) { r.b = append(r.b, ":"+strconv.Itoa(n)+"\r\n"...) }

//go:norace
func (r *reply) bulk(x []byte) {
	if x == nil {
		r.b = append(r.b, "$-1\r\n"...)
		return
	}
	r.b = append(r.b, "$"+strconv.Itoa(len(x))+"\r\n"...)
	r.b = append(r.b, x...)
	r.b = append(r.b, "\r\n"...)
}

//go:norace
func (r *reply) array(n int) { r.b = append(r.b, "*"+strconv.Itoa(n)+"\r\n"...) }

//go:norace
func mutating(cmd string) bool {
	switch cmd {
	case "HSET", "HDEL", "DEL", "LREM", "LSET", "RPUSH":
		return true
	}
	return false
}

// exec runs one command and returns its RESP reply.
//
//go:norace
func (s *Server) exec(args [][]byte, replaying bool) []byte {
	var r reply
	if len(args) == 0 {
		r.errorf("empty command")
		return r.b
	}
	cmd := strings.ToUpper(string(args[0]))
	if mutating(cmd) && !replaying {
		cp := make([][]byte, len(args))
		for i, a := range args {
			cp[i] = append([]byte{}, a...)
		}
		step := 0
		if sc := simrt.Active(); sc != nil {
			step = sc.StepCnt
		}
		s.Journal = append(s.Journal, Entry{N: s.Cmds, Step: step, Args: cp})
	}
	key := ""
	if len(args) > 1 {
		key = string(args[1])
	}
	switch cmd {
	case "PING":
		r.status("PONG")
	case "SELECT", "AUTH":
		r.status("OK")
	case "HSET":
		if len(args) < 4 || len(args)%2 != 0 {
			r.errorf("wrong number of arguments for 'hset' command")
			break
		}
		v := s.data[key]
		if v == nil {
			v = &val{hash: map[string][]byte{}}
			s.data[key] = v
		}
		if v.isList {
			r.errorf("WRONGTYPE Operation against a key holding the wrong kind of value")
			break
		}
		n := 0
		for i := 2; i+1 < len(args); i += 2 {
			f := string(args[i])
			if _, ok := v.hash[f]; !ok {
				n++
				v.order = append(v.order, f)
			}
			v.hash[f] = append([]byte{}, args[i+1]...)
		}
		r.integer(n)
	case "HMGET":
		v := s.data[key]
		r.array(len(args) - 2)
		for _, f := range args[2:] {
			if v == nil || v.isList {
				r.bulk(nil)
				continue
			}
			if x, ok := v.hash[string(f)]; ok {
				r.bulk(x)
			} else {
				r.bulk(nil)
			}
		}
	case "HGETALL":
		v := s.data[key]
		if v == nil || v.isList {
			r.array(0)
			break
		}
		r.array(2 * len(v.order))
		for _, f := range v.order {
			r.bulk([]byte(f))
			r.bulk(v.hash[f])
		}
	case "HDEL":
		v := s.data[key]
		n := 0
		if v != nil && !v.isList {
			for _, f := range args[2:] {
				if _, ok := v.hash[string(f)]; ok {
					delete(v.hash, string(f))
					for i, o := range v.order {
						if o == string(f) {
							v.order = append(v.order[:i:i], v.order[i+1:]...)
							break
						}
					}
					n++
				}
			}
			if len(v.hash) == 0 {
				delete(s.data, key)
			}
		}
		r.integer(n)
	case "DEL":
		n := 0
		for _, k := range args[1:] {
			if _, ok := s.data[string(k)]; ok {
				delete(s.data, string(k))
				n++
			}
		}
		r.integer(n)
	case "LLEN":
		if v := s.data[key]; v != nil && v.isList {
			r.integer(len(v.list))
		} else {
			r.integer(0)
		}
	case "LRANGE":
		v := s.data[key]
		if v == nil || !v.isList || len(args) < 4 {
			r.array(0)
			break
		}
		a, _ := strconv.Atoi(string(args[2]))
		b, _ := strconv.Atoi(string(args[3]))
		n := len(v.list)
		if a < 0 {
			a += n
		}
		if b < 0 {
			b += n
		}
		if a < 0 {
			a = 0
		}
		if b >= n {
			b = n - 1
		}
		if a > b || a >= n {
			r.array(0)
			break
		}
		r.array(b - a + 1)
		for _, e := range v.list[a : b+1] {
			r.bulk(e)
		}
	case "LREM":
		v := s.data[key]
		if v == nil || !v.isList || len(args) < 4 {
			r.integer(0)
			break
		}
		cnt, _ := strconv.Atoi(string(args[2]))
		n := 0
		var out [][]byte
		if cnt >= 0 {
			for _, e := range v.list {
				if bytes.Equal(e, args[3]) && (cnt == 0 || n < cnt) {
					n++
					continue
				}
				out = append(out, e)
			}
		} else {
			for i := len(v.list) - 1; i >= 0; i-- {
				e := v.list[i]
				if bytes.Equal(e, args[3]) && n < -cnt {
					n++
					continue
				}
				out = append([][]byte{e}, out...)
			}
		}
		v.list = out
		if len(v.list) == 0 {
			delete(s.data, key)
		}
		r.integer(n)
	case "LSET":
		v := s.data[key]
		if v == nil || !v.isList {
			r.errorf("no such key")
			break
		}
		i, _ := strconv.Atoi(string(args[2]))
		if i < 0 {
			i += len(v.list)
		}
		if i < 0 || i >= len(v.list) {
			r.errorf("index out of range")
			break
		}
		v.list[i] = append([]byte{}, args[3]...)
		r.status("OK")
	case "RPUSH":
		v := s.data[key]
		if v == nil {
			v = &val{isList: true}
			s.data[key] = v
		}
		if !v.isList {
			r.errorf("WRONGTYPE Operation against a key holding the wrong kind of value")
			break
		}
		for _, e := range args[2:] {
			v.list = append(v.list, append([]byte{}, e...))
		}
		r.integer(len(v.list))
	case "SCAN":
		// SCAN cursor [MATCH pattern] [COUNT n]; the cursor is an index into the sorted key list, pages have
		// random sizes (the caller's cursor loop is exercised)
		curs, _ := strconv.Atoi(key)
		pat := "*"
		for i := 2; i+1 < len(args); i += 2 {
			if strings.ToUpper(string(args[i])) == "MATCH" {
				pat = string(args[i+1])
			}
		}
		var ks []string
		for k := range s.data {
			ks = append(ks, k)
		}
		sort.Strings(ks)
		page := 1 + s.rng.IntN(4)
		end := curs + page
		next := end
		if end >= len(ks) {
			end = len(ks)
			next = 0
		}
		var m []string
		if curs < len(ks) {
			for _, k := range ks[curs:end] {
				if matchGlob(pat, k) {
					m = append(m, k)
				}
			}
		}
		if next != 0 {
			s.Fired["redis.scan_paging"]++
		}
		r.array(2)
		r.bulk([]byte(strconv.Itoa(next)))
		r.array(len(m))
		for _, k := range m {
			r.bulk([]byte(k))
		}
	default:
		r.errorf("unknown command '" + cmd + "' (simredis implements only what gmqtt issues)")
	}
	return r.b
}

//go:norace
func matchGlob(pat, s string) bool {
	if strings.HasSuffix(pat, "*") && !strings.ContainsAny(pat[:len(pat)-1], "*?[") {
		return strings.HasPrefix(s, pat[:len(pat)-1])
	}
	return pat == s
}

// conn is the client side net.Conn handed to redigo.
type conn struct {
	s       *Server
	readyAt time.Time // the reply of the last flush can be read from this (simulated) moment on
	epoch   int
	wbuf    []byte
	rbuf    []byte
	broken  bool
	closed  bool
}

var errBroken = &net.OpError{Op: "read", Net: "simredis", Err: errors.New("connection reset by peer")}

//go:norace
func (c *conn) dead() bool {
	return c.closed || c.broken || c.epoch != c.s.Epoch
}

//go:norace
func (c *conn) Write(p []byte) (int, error) {
	simrt.Yield() // between any two command flushes other tasks may run (and the process may "die")
	c.s.mu.Lock()
	defer c.s.mu.Unlock()
	if c.dead() {
		return 0, errBroken
	}
	c.wbuf = append(c.wbuf, p...)
	for {
		args, n, ok := parseCommand(c.wbuf)
		if !ok {
			break
		}
		c.wbuf = c.wbuf[n:]
		c.s.Cmds++
		if c.s.CrashAt > 0 && c.s.Cmds >= c.s.CrashAt && !c.s.crashed {
			c.s.crashed = true
			c.s.Epoch++
			c.s.Fired["broker.crash_at_command"]++
			if f := c.s.OnCrash; f != nil {
				c.s.mu.Unlock()
				f()
				c.s.mu.Lock()
			}
			return 0, errBroken
		}
		if c.s.DropAt[c.s.Cmds] {
			c.broken = true
			c.s.Fired["redis.conn_drop"]++
			return 0, errBroken
		}
		if c.s.ErrMatch != "" && len(args) >= 2 && strings.HasPrefix(strings.ToLower(string(args[0]))+" "+string(args[1]), c.s.ErrMatch) && c.s.rng.IntN(2) == 0 {
			// targeted storage fault: commands of one kind on one family of keys fail half of the time
			c.s.Fired["redis.cmd_error_targeted"]++
			c.rbuf = append(c.rbuf, "-ERR injected failure\r\n"...)
			continue
		}
		if c.s.ErrAt[c.s.Cmds] {
			c.s.Fired["redis.cmd_error"]++
			c.rbuf = append(c.rbuf, "-ERR injected failure\r\n"...)
			continue
		}
		c.rbuf = append(c.rbuf, c.s.exec(args, false)...)
		if c.s.ReplyLatMaxUs > 0 {
			// the round trip takes simulated time: the caller waits while other tasks go on
			c.readyAt = time.Now().Add(time.Duration(1+c.s.rng.IntN(c.s.ReplyLatMaxUs)) * time.Microsecond)
		}
	}
	return len(p), nil
}

//go:norace
func (c *conn) Read(p []byte) (int, error) {
	c.s.mu.Lock()
	wait := time.Until(c.readyAt)
	c.s.mu.Unlock()
	if wait > 0 {
		simrt.Sleep(wait)
	}
	c.s.mu.Lock()
	defer c.s.mu.Unlock()
	if len(c.rbuf) == 0 {
		if c.dead() {
			return 0, errBroken
		}
		return 0, io.EOF // redigo only reads after a flush; nothing buffered means the server went away
	}
	n := copy(p, c.rbuf)
	c.rbuf = c.rbuf[n:]
	return n, nil
}

//go:norace
func (c *conn) Close() error { c.closed = true; return nil }

//go:norace
func (c *conn) LocalAddr() net.Addr { return addr("broker") }

//go:norace
func (c *conn) RemoteAddr() net.Addr { return addr("simredis") }

//go:norace
func (c *conn) SetDeadline(t time.Time) error { return nil }

//go:norace
func (c *conn) SetReadDeadline(t time.Time) error { return nil }

//go:norace
func (c *conn) SetWriteDeadline(t time.Time) error { return nil }

type addr string

//go:norace
func (a addr) Network() string { return "sim" }

//go:norace
func (a addr) String() string { return string(a) }

// parseCommand parses one RESP array of bulk strings from the front of b.
//
//go:norace
func parseCommand(b []byte) (args [][]byte, n int, ok bool) {
	if len(b) == 0 || b[0] != '*' {
		return nil, 0, false
	}
	i := bytes.Index(b, []byte("\r\n"))
	if i < 0 {
		return nil, 0, false
	}
	cnt, err := strconv.Atoi(string(b[1:i]))
	if err != nil {
		return nil, 0, false
	}
	pos := i + 2
	for k := 0; k < cnt; k++ {
		if pos >= len(b) || b[pos] != '$' {
			return nil, 0, false
		}
		j := bytes.Index(b[pos:], []byte("\r\n"))
		if j < 0 {
			return nil, 0, false
		}
		l, err := strconv.Atoi(string(b[pos+1 : pos+j]))
		if err != nil {
			return nil, 0, false
		}
		start := pos + j + 2
		if start+l+2 > len(b) {
			return nil, 0, false
		}
		args = append(args, append([]byte{}, b[start:start+l]...))
		pos = start + l + 2
	}
	return args, pos, true
}

// Dial replaces redigo.Dial (rule R6).
//
//go:norace
func Dial(network, address string, options ...redigo.DialOption) (redigo.Conn, error) {
	s := current()
	if s == nil {
		return nil, errors.New("simredis: no server installed")
	}
	s.mu.Lock()
	c := &conn{s: s, epoch: s.Epoch}
	s.mu.Unlock()
	return redigo.NewConn(c, 0, 0), nil
}
