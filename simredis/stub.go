// Package simredis is the in-process redis model (RESP over an in-memory conn).
package simredis

import (
	"errors"

	redigo "github.com/gomodule/redigo/redis"
)

// Dial replaces redigo.Dial (rule R6).
func Dial(network, address string, options ...redigo.DialOption) (redigo.Conn, error) {
	return nil, errors.New("simredis: not built yet")
}
