// vcheck is the driver of one property check: it rebuilds the instrumented broker from /repo's
// working tree, fans simulated runs out over worker processes, aggregates their results, minimises
// and replay-verifies violations, applies the known-findings file, writes the evidence file and sets
// the exit code (0 held, 1 violation, 2 infrastructure trouble).
package main

import (
	"bufio"
	"bytes"
	"encoding/json"
	"fmt"
	"os"
	"os/exec"
	"path/filepath"
	"runtime"
	"sort"
	"strconv"
	"strings"
	"sync"
	"sync/atomic"
	"time"
)

type runResult struct {
	Idx        int
	Seed       uint64
	Steps      int
	Switches   int
	SimUs      int64
	Ops        int
	Clients    int
	Faults     map[string]int
	Probes     map[string]int
	SchedSig   string
	Hash       string
	Nontrivial bool
	Inconcl    string
	Viol       []string
	ViolFile   string
	WallUs     int64
	Leaked     bool
	Sample     json.RawMessage
}

type finding struct {
	Property string `json:"property"`
	Clause   string `json:"clause"`
	Sig      string `json:"sig"`
	Status   string `json:"status"` // open | fixed
	Commit   string `json:"commit,omitempty"`
	What     string `json:"what"`
	// a finding whose discriminating feature of the history is carried as a signature suffix by several clauses
	SigSuffix string   `json:"sig_suffix,omitempty"`
	Clauses   []string `json:"clauses,omitempty"`
}

type tierCfg struct {
	BudgetS  int
	MaxRuns  int
	Workers  int
	MinBudgS int
}

var root string

func die(code int, f string, a ...any) {
	fmt.Fprintf(os.Stderr, "vcheck: "+f+"\n", a...)
	os.Exit(code)
}

func env() []string {
	e := os.Environ()
	return append(e, "GOFLAGS=-mod=mod", "GOPROXY=off", "GOSUMDB=off", "GOTOOLCHAIN=local")
}

func build() {
	cmd := exec.Command(filepath.Join(root, "bin", "build"))
	cmd.Env = env()
	cmd.Stderr = os.Stderr
	cmd.Stdout = os.Stderr
	if err := cmd.Run(); err != nil {
		die(2, "build failed: %v", err)
	}
}

func testBin() string { return filepath.Join(root, ".work", "checks.test") }

// The race instrument: the same checks binary built with -race (controlled schedules, simulator
// synchronisation hidden from the detector, virtual sync primitives annotated).
func raceBin() string { return filepath.Join(root, ".work", "checks.race.test") }

var raceBuilt bool
var raceSeq atomic.Int64

func buildRace() {
	if raceBuilt {
		return
	}
	cmd := exec.Command("go1.26.8", "test", "-race", "-c", "-overlay", filepath.Join(root, ".work", "ov", "overlay.json"), "-o", raceBin(), "./checks")
	cmd.Dir = root
	cmd.Env = env()
	cmd.Stderr = os.Stderr
	cmd.Stdout = os.Stderr
	if err := cmd.Run(); err != nil {
		die(2, "race build failed: %v", err)
	}
	raceBuilt = true
}

// raceProps lists the properties whose check has a race-instrument phase.
var raceProps = map[string]int{"C15": 40, "C02": 20, "C05": 20, "C11": 20, "C14": 20, "C16": 20, "C19": 25, "C20": 25} // property -> percent of the budget

func runWorker(extra []string, stdout *bytes.Buffer) (int, string) {
	return runWorkerBin(false, extra, stdout)
}

func runWorkerBin(race bool, extra []string, stdout *bytes.Buffer) (int, string) {
	bin := testBin()
	if race {
		bin = raceBin()
		logp := filepath.Join(root, ".work", "run", fmt.Sprintf("race-%d-%d", os.Getpid(), raceSeq.Add(1)))
		os.MkdirAll(filepath.Dir(logp), 0o755)
		extra = append(extra, "GORACE=log_path="+logp+" halt_on_error=0", "VERIF_RACE_LOG="+logp)
		defer func() {
			if fs, _ := filepath.Glob(logp + "*"); fs != nil {
				for _, f := range fs {
					os.Remove(f)
				}
			}
		}()
	}
	cmd := exec.Command(bin, "-test.run", "^TestWorker$", "-test.timeout", "0")
	cmd.Env = append(env(), extra...)
	var stderr bytes.Buffer
	cmd.Stderr = &stderr
	if stdout != nil {
		cmd.Stdout = stdout
	}
	err := cmd.Run()
	if err == nil {
		return 0, stderr.String()
	}
	if ee, ok := err.(*exec.ExitError); ok {
		if race && ee.ExitCode() == 1 {
			// the testing package marks a run in which the detector reported anything (simulator state
			// included) as failed; the verdict is in the result lines, not in the exit code
			return 0, stderr.String()
		}
		return ee.ExitCode(), stderr.String()
	}
	return -1, err.Error()
}

func main() {
	if len(os.Args) < 3 {
		die(2, "usage: vcheck <property> quick|thorough | vcheck --replay <file>")
	}
	exe, _ := os.Executable()
	root = os.Getenv("VERIF_ROOT")
	if root == "" {
		root = filepath.Dir(filepath.Dir(exe))
		if _, err := os.Stat(filepath.Join(root, "MANIFEST.json")); err != nil {
			root, _ = os.Getwd()
		}
	}
	if os.Args[1] == "--replay" {
		build()
		os.Exit(replay(os.Args[2], true))
	}
	prop, tier := os.Args[1], os.Args[2]
	if t := os.Getenv("VERIF_TIER"); t == "quick" || t == "thorough" {
		tier = t
	}
	seed := uint64(1)
	if v := os.Getenv("VERIF_SEED"); v != "" {
		if n, err := strconv.ParseUint(v, 10, 64); err == nil {
			seed = n
		}
	}
	tc := tierCfg{BudgetS: 45, MaxRuns: 200000, Workers: runtime.NumCPU()}
	if tier == "thorough" {
		tc.BudgetS = 900
		tc.MaxRuns = 5000000
	}
	if v := os.Getenv("VERIF_BUDGET_S"); v != "" {
		tc.BudgetS, _ = strconv.Atoi(v)
	}
	if v := os.Getenv("VERIF_MAX_RUNS"); v != "" {
		tc.MaxRuns, _ = strconv.Atoi(v)
	}
	if v := os.Getenv("VERIF_WORKERS"); v != "" {
		tc.Workers, _ = strconv.Atoi(v)
	}
	start := time.Now()
	build()
	buildS := time.Since(start).Seconds()
	dir := filepath.Join(root, ".work", "run", prop)
	os.RemoveAll(dir)
	os.MkdirAll(dir, 0o755)

	if rep, ok := readJSON(filepath.Join(root, ".work", "ov", "report.json")).(map[string]any); ok {
		if n, _ := rep["R5skipped"].(float64); n > 0 {
			fmt.Printf("WARNING: the rewriter could not order %v map iteration(s) (key type not ordered): replay may not be exact\n", n)
		}
	}
	// fan out
	var mu sync.Mutex
	infra := ""
	fanOut := func(race bool, prefix string, base int, deadline time.Time) {
		var wg sync.WaitGroup
		for wid := 0; wid < tc.Workers; wid++ {
			wg.Add(1)
			go func(wid int) {
				defer wg.Done()
				out := filepath.Join(dir, fmt.Sprintf("%s%d.jsonl", prefix, wid))
				from := base + wid
				for {
					rem := int(time.Until(deadline).Seconds())
					if rem <= 0 {
						return
					}
					code, stderr := runWorkerBin(race, []string{"VERIF_MODE=batch", "VERIF_PROP=" + prop, "VERIF_SEED=" + fmt.Sprint(seed), "VERIF_TIER=" + tier,
						fmt.Sprintf("VERIF_FROM=%d", from), fmt.Sprintf("VERIF_TO=%d", base+tc.MaxRuns), fmt.Sprintf("VERIF_STRIDE=%d", tc.Workers),
						fmt.Sprintf("VERIF_BUDGET_S=%d", rem), "VERIF_OUT=" + out}, nil)
					if code == 0 {
						return
					}
					if code == 3 {
						// worker asked for a fresh process (leaked goroutines): continue after its last run
						last := lastIdx(out)
						if last < 0 {
							last = from - tc.Workers
						}
						from = last + tc.Workers
						continue
					}
					mu.Lock()
					if infra == "" {
						infra = fmt.Sprintf("worker %d exited with %d:\n%s", wid, code, tail(stderr, 6000))
					}
					mu.Unlock()
					return
				}
			}(wid)
		}
		wg.Wait()
	}
	budget := time.Duration(tc.BudgetS) * time.Second
	raceRuns := 0
	if pct := raceProps[prop]; pct > 0 && os.Getenv("VERIF_NO_RACE") == "" {
		// most of the budget under the plain binary, the rest under the race instrument (other run indices)
		t0 := time.Now()
		fanOut(false, "w", 0, t0.Add(budget*time.Duration(100-pct)/100))
		if infra == "" {
			buildRace()
			fanOut(true, "wr", 50000000, time.Now().Add(budget*time.Duration(pct)/100))
			for wid := 0; wid < tc.Workers; wid++ {
				if n := lastIdx(filepath.Join(dir, fmt.Sprintf("wr%d.jsonl", wid))); n >= 0 {
					raceRuns += (n-50000000)/tc.Workers + 1
				}
			}
		}
	} else {
		fanOut(false, "w", 0, time.Now().Add(budget))
	}
	if infra != "" {
		die(2, "%s", infra)
	}
	exploreS := time.Since(start).Seconds() - buildS

	// aggregate
	var results []runResult
	files, _ := filepath.Glob(filepath.Join(dir, "w*.jsonl"))
	sort.Strings(files)
	for _, f := range files {
		fh, err := os.Open(f)
		if err != nil {
			continue
		}
		sc := bufio.NewScanner(fh)
		sc.Buffer(make([]byte, 1<<20), 1<<26)
		for sc.Scan() {
			var r runResult
			if json.Unmarshal(sc.Bytes(), &r) == nil {
				results = append(results, r)
			}
		}
		fh.Close()
	}
	if len(results) == 0 {
		die(2, "no run completed")
	}
	sort.Slice(results, func(a, b int) bool { return results[a].Idx < results[b].Idx })
	faults := map[string]int{}
	probes := map[string]int{}
	distinct := map[string]bool{}
	states := map[string]bool{}
	var steps, switches int
	var simUs int64
	inconcl := map[string]int{}
	nontriv := 0
	var samples []json.RawMessage
	type vgroup struct {
		clause, sig string
		count       int
		best        *runResult
		cands       []*runResult // race groups: further runs to try when the first does not reproduce
		msg         string
	}
	groups := map[string]*vgroup{}
	leaked := 0
	for i := range results {
		r := &results[i]
		steps += r.Steps
		switches += r.Switches
		simUs += r.SimUs
		var fk []string
		for k, v := range r.Faults {
			faults[k] += v
			if v > 0 {
				fk = append(fk, k)
			}
		}
		sort.Strings(fk)
		for k, v := range r.Probes {
			probes[k] += v
		}
		if r.Inconcl != "" {
			inconcl[r.Inconcl]++
		}
		if r.Leaked {
			leaked++
		}
		states[r.Hash] = true
		if r.Nontrivial {
			nontriv++
			distinct[r.SchedSig+"|"+strings.Join(fk, ",")] = true
		}
		if len(r.Sample) > 0 && len(samples) < 3 {
			samples = append(samples, r.Sample)
		}
		seen := map[string]bool{}
		for _, v := range r.Viol {
			parts := strings.SplitN(v, "|", 3)
			if len(parts) < 3 {
				continue
			}
			key := parts[0] + "|" + parts[1]
			if seen[key] {
				continue
			}
			seen[key] = true
			g := groups[key]
			if g == nil {
				cl := parts[0]
				if i := strings.IndexByte(cl, '.'); i >= 0 {
					cl = cl[i+1:]
				}
				g = &vgroup{clause: cl, sig: parts[1], msg: parts[2]}
				groups[key] = g
			}
			g.count++
			if r.ViolFile != "" && g.clause == "race" && len(g.cands) < 6 {
				g.cands = append(g.cands, r)
			}
			if r.ViolFile != "" && (g.best == nil || r.Ops < g.best.Ops) {
				g.best = r
			}
		}
	}

	// known findings
	var known struct {
		Findings []finding `json:"findings"`
	}
	if b, err := os.ReadFile(filepath.Join(root, "known_findings.json")); err == nil {
		if err := json.Unmarshal(b, &known); err != nil {
			die(2, "known_findings.json: %v", err)
		}
	}
	isKnown := func(clause, sig string) *finding {
		for i := range known.Findings {
			f := &known.Findings[i]
			if f.Property == prop && f.Status == "open" && f.Clause == clause && f.Sig == sig && f.SigSuffix == "" {
				return f
			}
			if f.Property == prop && f.Status == "open" && f.SigSuffix != "" && strings.HasSuffix(sig, f.SigSuffix) {
				for _, c := range f.Clauses {
					if c == clause {
						return f
					}
				}
			}
		}
		return nil
	}

	var keys []string
	for k := range groups {
		keys = append(keys, k)
	}
	sort.Strings(keys)
	exit := 0
	nviol := 0
	raceGroups, raceSkipped := 0, 0
	var knownHit []string
	var report []map[string]any
	os.MkdirAll(filepath.Join(root, "replays"), 0o755)
	for _, k := range keys {
		g := groups[k]
		if f := isKnown(g.clause, g.sig); f != nil {
			fmt.Printf("KNOWN-FINDING: property=%s %s.%s [%s] %s (seen in %d runs)\n", prop, prop, g.clause, g.sig, f.What, g.count)
			knownHit = append(knownHit, g.clause+"/"+g.sig)
			continue
		}
		if g.clause == "race" {
			raceGroups++
			if raceGroups > 6 {
				// each race signature costs a fresh race-binary process to verify; the first ones are the verdict
				raceSkipped++
				continue
			}
		}
		// minimise and replay-verify in fresh processes
		if g.best == nil {
			die(2, "violation %s without a replay file", k)
		}
		dst := filepath.Join(root, "replays", fmt.Sprintf("%s-%s-%s-seed%d-run%d.json", prop, safe(g.clause), safe(g.sig), seed, g.best.Idx))
		minFile := dst
		var so bytes.Buffer
		code, stderr, minInfo := 1, "", "not minimised (race reports are de-duplicated per process)"
		if g.clause != "race" {
			code, stderr = runWorker([]string{"VERIF_MODE=minimize", "VERIF_FILE=" + g.best.ViolFile, "VERIF_MIN_OUT=" + dst, "VERIF_BUDGET_S=90"}, &so)
			minInfo = grepResult(so.String(), "MINIMIZE-RESULT ")
		}
		if code != 0 || !strings.Contains(minInfo, `"reproduced":true`) {
			// fall back to the unminimised file
			b, err := os.ReadFile(g.best.ViolFile)
			if err != nil {
				die(2, "cannot read %s: %v (minimiser: %d %s)", g.best.ViolFile, err, code, tail(stderr, 2000))
			}
			os.WriteFile(dst, b, 0o644)
		}
		rc := replay(minFile, false)
		if rc == 0 && g.clause == "race" {
			// a race report can involve an access left over from an earlier run of the same worker process;
			// such a report is not a property of this run. Try the other runs of the group.
			for _, c := range g.cands {
				if c == g.best {
					continue
				}
				b, err := os.ReadFile(c.ViolFile)
				if err != nil {
					continue
				}
				alt := filepath.Join(root, "replays", fmt.Sprintf("%s-%s-%s-seed%d-run%d.json", prop, safe(g.clause), safe(g.sig), seed, c.Idx))
				os.WriteFile(alt, b, 0o644)
				if replay(alt, false) == 1 {
					os.Remove(minFile)
					minFile, rc = alt, 1
					break
				}
				os.Remove(alt)
			}
			if rc == 0 {
				os.Remove(minFile)
				fmt.Printf("WARNING: race report [%s] seen in %d run(s) did not reproduce from any of their replay files in a fresh process; not a verdict\n", g.sig, g.count)
				continue
			}
		}
		if rc == 2 {
			die(2, "replay of %s failed to run", minFile)
		}
		if rc == 0 {
			// the violation did not reproduce from its own replay file: a determinism problem of the
			// simulator, not a verdict about the broker
			die(2, "violation %s.%s [%s] did not reproduce from %s — simulator nondeterminism; no verdict", prop, g.clause, g.sig, minFile)
		}
		nviol++
		exit = 1
		rel, _ := filepath.Rel(root, minFile)
		fmt.Printf("VIOLATION property=%s replay=%s\n", prop, rel)
		fmt.Printf("  clause %s.%s [%s] in %d of %d runs: %s\n  minimiser: %s\n", prop, g.clause, g.sig, g.count, len(results), trunc(g.msg, 1500), minInfo)
		report = append(report, map[string]any{"clause": g.clause, "sig": g.sig, "runs": g.count, "replay": rel, "message": trunc(g.msg, 1500)})
	}

	if raceSkipped > 0 {
		fmt.Printf("NOTE: %d further race signatures were seen and not replayed (the first 6 are reported above)\n", raceSkipped)
	}
	wall := time.Since(start).Seconds()
	level := "exploration"
	evaluations := len(results)
	rule := "one evaluation = one simulated run (plan derived from (VERIF_SEED, property, run index): configuration, clients, operations, faults, schedule bias; every scheduling choice drawn from the run's PRNG). " +
		"A run is non-trivial if the check's own predicate holds (it exercised the property: e.g. messages were delivered / faults fired / context switches taken); " +
		"distinct = distinct pairs (hash of the sequence of scheduled task sites and simulator events, set of fault kinds that fired) among non-trivial runs, counted from the workers' result lines"
	if prop == "C09" {
		level = "fault_enumeration"
		evaluations = probes["crash_points"]
		rule = "one evaluation = one crash point: a prefix of the journal of mutating storage commands of a generated history, materialised and restarted on (histories = simulated runs; crash points per history: quick = prefixes adjacent to acknowledgements + seeded sample, thorough = all prefixes). " +
			"distinct_nontrivial counts distinct histories (hash of scheduled task sites and events) that had at least 2 crash points checked"
	}
	ev := map[string]any{
		"property_id": prop,
		"tier":        tier,
		"seed":        seed,
		"level":       level,
		"wall_s":      wall,
		"violations":  nviol,
		"coverage": map[string]any{
			"evaluations":                     evaluations,
			"histories":                       len(results),
			"distinct_nontrivial":             len(distinct),
			"rule":                            rule,
			"samples":                         samples,
			"nontrivial_runs":                 nontriv,
			"distinct_histories":              len(states),
			"scheduler_steps":                 steps,
			"context_switches":                switches,
			"simulated_seconds":               float64(simUs) / 1e6,
			"runs_per_hour":                   float64(len(results)) / exploreS * 3600,
			"faults_fired":                    faults,
			"probes":                          probes,
			"inconclusive":                    inconcl,
			"runs_with_unkillable_goroutines": leaked,
			"known_findings_hit":              knownHit,
			"violations_reported":             report,
			"workers":                         tc.Workers,
			"build_s":                         buildS,
			"explore_s":                       exploreS,
			"mode":                            "controlled (overlay R1-R7, seeded one-task-at-a-time scheduler, synctest clock)",
			"rewriter_report":                 readJSON(filepath.Join(root, ".work", "ov", "report.json")),
			"real_vs_stub":                    realVsStub(prop),
			"race_instrument_runs":            raceRuns,
		},
		"assumptions": []string{
			"Go toolchain and testing/synctest fake clock are correct",
			"the overlay rewriter preserves semantics (every order it imposes is one Go allows)",
			"the independent MQTT codec (mqttc) and the reference models are correct",
			"interleavings are explored at synchronisation points (locks, condition variables, channel operations, I/O, go statements)",
		},
	}
	b, _ := json.MarshalIndent(ev, "", " ")
	os.MkdirAll(filepath.Join(root, "evidence"), 0o755)
	if err := os.WriteFile(filepath.Join(root, "evidence", prop+".json"), b, 0o644); err != nil {
		die(2, "evidence: %v", err)
	}
	fmt.Printf("%s %s: %d runs (%d non-trivial, %d distinct), %d steps, %.0f simulated s, %d violation group(s), %d known; %.1fs\n",
		prop, tier, len(results), nontriv, len(distinct), steps, float64(simUs)/1e6, nviol, len(knownHit), wall)
	os.Exit(exit)
}

func realVsStub(prop string) map[string]string {
	m := map[string]string{
		"gmqtt server, persistence(memory), retained trie, topic alias, packets codec": "real code, instrumented by overlay",
		"MQTT clients and their codec": "simulator (independent implementation)",
		"TCP":                          "stub: in-memory byte pipe with chunking, latency, cut, stall",
		"clock, goroutine scheduling, select, map order, math/rand": "simulator controlled",
	}
	switch prop {
	case "C06":
		m = map[string]string{
			"pkg/packets Reader, Writer, every Unpack / Pack, buffer pool, TotalBytes": "real code, instrumented by overlay",
			"packet producer and the decoder judging the echo":                         "simulator (independent MQTT 3.1/3.1.1/5 codec)",
			"connection": "stub: in-memory byte pipe with chunking, truncation + EOF, corruption",
			"goroutine scheduling of the relay tasks": "simulator controlled",
			"gmqtt server": "not part of this check",
		}
	case "C09", "C10":
		m["redis server"] = "stub: simulated RESP server (command subset used by gmqtt) with a write journal, crash at any journal position, error / dropped-connection injection; gmqtt's redis persistence and redigo's protocol code are real"
	case "C16", "C17":
		m["plugin/federation (hooks, event queue, peer loop, Hello / EventStream handlers, session manager), generated protobuf + gRPC stubs, protobuf encoding"] = "real code, instrumented by overlay"
		m["serf (membership, gossip, failure detection)"] = "stub: per-observer membership events with seeded delays in any legal serf order"
		m["grpc-go transport (HTTP/2)"] = "stub: message-granular duplex transport per RPC with seeded latency, cuts in either direction, delayed notice of a cut, unreachable peers"
	case "C18":
		m["net/http server, gorilla/websocket (upgrade, framing)"] = "real code (not instrumented), running on the simulated listener"
		m["WebSocket client"] = "simulator (own RFC 6455 client with seeded fragmentation)"
	case "C19":
		m["plugin/auth (password file load / save, account API)"] = "real code, instrumented by overlay"
		m["file system"] = "real files in a per-run sandbox directory; open / rename / remove re-targeted and failed by injection"
	case "C14":
		m["hooks and wrappers"] = "recording / deciding test plugins registered through the real plugin API"
	}
	return m
}

func readJSON(p string) any {
	b, err := os.ReadFile(p)
	if err != nil {
		return nil
	}
	var v any
	json.Unmarshal(b, &v)
	return v
}

func lastIdx(path string) int {
	b, err := os.ReadFile(path)
	if err != nil {
		return -1
	}
	lines := strings.Split(strings.TrimSpace(string(b)), "\n")
	for i := len(lines) - 1; i >= 0; i-- {
		var r runResult
		if json.Unmarshal([]byte(lines[i]), &r) == nil {
			return r.Idx
		}
	}
	return -1
}

func tail(s string, n int) string {
	if len(s) > n {
		return s[len(s)-n:]
	}
	return s
}

func trunc(s string, n int) string {
	if len(s) > n {
		return s[:n] + "…"
	}
	return s
}

func safe(s string) string {
	var b strings.Builder
	for _, c := range s {
		if c >= 'a' && c <= 'z' || c >= 'A' && c <= 'Z' || c >= '0' && c <= '9' || c == '-' || c == '_' {
			b.WriteRune(c)
		} else {
			b.WriteByte('_')
		}
	}
	r := b.String()
	if len(r) > 40 {
		r = r[:40]
	}
	return r
}

func grepResult(out, prefix string) string {
	for _, l := range strings.Split(out, "\n") {
		if strings.HasPrefix(l, prefix) {
			return strings.TrimPrefix(l, prefix)
		}
	}
	return ""
}

// replay re-executes a replay file in a fresh process. Returns 1 if the violation reproduced (and,
// when verbose, prints the VIOLATION line), 0 if not, 2 on trouble.
func replay(file string, verbose bool) int {
	var so bytes.Buffer
	race := false
	if b, err := os.ReadFile(file); err == nil {
		var rf struct{ Clause string }
		if json.Unmarshal(b, &rf) == nil && rf.Clause == "race" {
			race = true
			buildRace()
		}
	}
	code, stderr := runWorkerBin(race, []string{"VERIF_MODE=replay", "VERIF_FILE=" + file}, &so)
	res := grepResult(so.String(), "REPLAY-RESULT ")
	if code != 0 || res == "" {
		fmt.Fprintf(os.Stderr, "replay worker exit %d\n%s\n%s\n", code, tail(so.String(), 2000), tail(stderr, 4000))
		return 2
	}
	var r struct {
		Reproduced bool   `json:"reproduced"`
		SameHash   bool   `json:"same_hash"`
		Violation  string `json:"violation"`
		Hash       string `json:"hash"`
	}
	json.Unmarshal([]byte(res), &r)
	if verbose {
		var rf struct{ Property string }
		b, _ := os.ReadFile(file)
		json.Unmarshal(b, &rf)
		if r.Reproduced {
			fmt.Printf("VIOLATION property=%s replay=%s\n  %s\n  event-log hash %s (same as recorded: %v)\n", rf.Property, file, r.Violation, r.Hash, r.SameHash)
		} else {
			fmt.Printf("not reproduced: %s\n", res)
		}
	}
	if r.Reproduced {
		return 1
	}
	return 0
}
