// Prototype overlay generator: rules R1 (sync->vsync), R2 (go stmts), R3 (yields around channel ops), R7 (panic probe).
package main

import (
	"bytes"
	"encoding/json"
	"flag"
	"fmt"
	"go/ast"
	"go/format"
	"go/importer"
	"go/parser"
	"go/token"
	"go/types"
	"io"
	"os"
	"os/exec"
	"path/filepath"
	"sort"
	"strings"
)

type pkgInfo struct {
	ImportPath string
	Export     string
	Dir        string
	GoFiles    []string
}

const gm = "github.com/DrmagicE/gmqtt"

// targets are the gmqtt packages that contain concurrency, time or I/O; everything else
// (codes, bitmap, config, encoding) is pure and compiled as is.
var targets = []string{
	gm,
	gm + "/server",
	gm + "/persistence",
	gm + "/persistence/queue/mem",
	gm + "/persistence/queue/redis",
	gm + "/persistence/session/mem",
	gm + "/persistence/session/redis",
	gm + "/persistence/subscription/mem",
	gm + "/persistence/subscription/redis",
	gm + "/persistence/unack/mem",
	gm + "/persistence/unack/redis",
	gm + "/retained/trie",
	gm + "/topicalias/fifo",
	gm + "/pkg/packets",
	gm + "/plugin/auth",
	gm + "/plugin/federation",
}

// subst is one R6 rule: calls to (pkg, recv, name) become calls to newPkg.newName; a method call
// passes its receiver as first argument.
type subst struct {
	pkg, recv, name string
	newPath, newPkg string
	newName         string
	onlyIn          string // restrict to one target package ("" = all)
}

var substs = []subst{
	{pkg: "math/rand", name: "Intn", newPath: "verifsim/simrt", newPkg: "simrt", newName: "Intn"},
	{pkg: "net/http", recv: "Server", name: "ListenAndServe", newPath: "verifsim/simnet", newPkg: "simnet", newName: "HTTPListenAndServe"},
	{pkg: "net/http", recv: "Server", name: "ListenAndServeTLS", newPath: "verifsim/simnet", newPkg: "simnet", newName: "HTTPListenAndServeTLS"},
	{pkg: "net/http", recv: "Server", name: "Shutdown", newPath: "verifsim/simnet", newPkg: "simnet", newName: "HTTPShutdown"},
	{pkg: "github.com/gomodule/redigo/redis", name: "Dial", newPath: "verifsim/simredis", newPkg: "simredis", newName: "Dial"},
	{pkg: "io/ioutil", name: "TempFile", newPath: "verifsim/simfs", newPkg: "simfs", newName: "TempFile", onlyIn: gm + "/plugin/auth"},
	{pkg: "os", name: "Rename", newPath: "verifsim/simfs", newPkg: "simfs", newName: "Rename", onlyIn: gm + "/plugin/auth"},
	{pkg: "os", name: "OpenFile", newPath: "verifsim/simfs", newPkg: "simfs", newName: "OpenFile", onlyIn: gm + "/plugin/auth"},
	{pkg: "os", name: "Remove", newPath: "verifsim/simfs", newPkg: "simfs", newName: "Remove", onlyIn: gm + "/plugin/auth"},
	{pkg: "github.com/hashicorp/serf/serf", name: "Create", newPath: "verifsim/simfed", newPkg: "simfed", newName: "SerfCreate", onlyIn: gm + "/plugin/federation"},
	{pkg: "net", name: "Listen", newPath: "verifsim/simfed", newPkg: "simfed", newName: "Listen", onlyIn: gm + "/plugin/federation"},
	{pkg: "google.golang.org/grpc", name: "NewServer", newPath: "verifsim/simfed", newPkg: "simfed", newName: "NewGRPCServer", onlyIn: gm + "/plugin/federation"},
	{pkg: "google.golang.org/grpc", name: "Dial", newPath: "verifsim/simfed", newPkg: "simfed", newName: "Dial", onlyIn: gm + "/plugin/federation"},
	{pkg: "github.com/google/uuid", name: "New", newPath: "verifsim/simfed", newPkg: "simfed", newName: "UUID", onlyIn: gm + "/plugin/federation"},
}

func main() {
	out := flag.String("out", ".work/ov", "output dir")
	modDir := flag.String("mod", ".", "harness module dir")
	gobin := flag.String("go", "go1.26.8", "go binary")
	disable := flag.String("disable", "", "comma separated rules to disable (selftest)")
	only := flag.String("only", "", "comma separated import path suffixes to restrict targets (\"\" = all)")
	flag.Parse()
	disabled := map[string]bool{}
	for _, d := range strings.Split(*disable, ",") {
		if d != "" {
			disabled[d] = true
		}
	}
	tg := targets
	if *only != "" {
		tg = nil
		for _, t := range targets {
			for _, o := range strings.Split(*only, ",") {
				if strings.HasSuffix(t, o) {
					tg = append(tg, t)
				}
			}
		}
	}
	os.MkdirAll(*out, 0o755)
	args := append([]string{"list", "-export", "-deps", "-json=ImportPath,Export,Dir,GoFiles"}, tg...)
	cmd := exec.Command(*gobin, args...)
	cmd.Dir = *modDir
	cmd.Stderr = os.Stderr
	b, err := cmd.Output()
	if err != nil {
		fmt.Fprintln(os.Stderr, "go list failed:", err)
		os.Exit(2)
	}
	dec := json.NewDecoder(bytes.NewReader(b))
	exports := map[string]string{}
	byPath := map[string]pkgInfo{}
	for {
		var p pkgInfo
		if err := dec.Decode(&p); err == io.EOF {
			break
		} else if err != nil {
			panic(err)
		}
		exports[p.ImportPath] = p.Export
		byPath[p.ImportPath] = p
	}
	fset := token.NewFileSet()
	imp := importer.ForCompiler(fset, "gc", func(path string) (io.ReadCloser, error) {
		f := exports[path]
		if f == "" {
			return nil, fmt.Errorf("no export data for %s", path)
		}
		return os.Open(f)
	})
	overlay := map[string]string{}
	stats := map[string]int{}
	for _, tp := range tg {
		p := byPath[tp]
		var files []*ast.File
		for _, f := range p.GoFiles {
			af, err := parser.ParseFile(fset, filepath.Join(p.Dir, f), nil, parser.SkipObjectResolution|parser.ParseComments)
			if err != nil {
				fmt.Fprintln(os.Stderr, "parse:", err)
				os.Exit(2)
			}
			files = append(files, af)
		}
		info := &types.Info{Types: map[ast.Expr]types.TypeAndValue{}, Uses: map[*ast.Ident]types.Object{}, Defs: map[*ast.Ident]types.Object{}, Implicits: map[ast.Node]types.Object{}, Selections: map[*ast.SelectorExpr]*types.Selection{}}
		conf := types.Config{Importer: imp}
		if _, err := conf.Check(p.ImportPath, fset, files, info); err != nil {
			fmt.Fprintln(os.Stderr, "typecheck:", err)
			os.Exit(2)
		}
		for i, af := range files {
			if strings.HasSuffix(p.GoFiles[i], ".pb.go") || strings.HasSuffix(p.GoFiles[i], ".pb.gw.go") || strings.HasSuffix(p.GoFiles[i], "_mock.go") {
				continue
			}
			r := &rw{fset: fset, info: info, stats: stats, file: p.GoFiles[i], pkg: tp, disabled: disabled, need: map[string]string{}}
			changed := r.file_(af)
			if !changed {
				continue
			}
			af.Comments = nil // positions are stale after rewriting; build tags are not used in these files
			var buf bytes.Buffer
			if err := format.Node(&buf, fset, af); err != nil {
				panic(err)
			}
			rel := strings.ReplaceAll(strings.TrimPrefix(p.ImportPath, "github.com/DrmagicE/"), "/", "_") + "__" + p.GoFiles[i]
			dst, _ := filepath.Abs(filepath.Join(*out, rel))
			if err := os.WriteFile(dst, buf.Bytes(), 0o644); err != nil {
				panic(err)
			}
			overlay[filepath.Join(p.Dir, p.GoFiles[i])] = dst
		}
	}
	// files added to gmqtt packages (overlay_src/<pkg path with _>/<file>.go)
	addDir := filepath.Join(*modDir, "overlay_src")
	if ents, err := os.ReadDir(addDir); err == nil {
		for _, e := range ents {
			if !e.IsDir() {
				continue
			}
			pkgPath := gm + "/" + strings.ReplaceAll(e.Name(), "__", "/")
			p, ok := byPath[pkgPath]
			if !ok {
				continue
			}
			fs, _ := os.ReadDir(filepath.Join(addDir, e.Name()))
			for _, f := range fs {
				if strings.HasSuffix(f.Name(), ".go") {
					src, _ := filepath.Abs(filepath.Join(addDir, e.Name(), f.Name()))
					overlay[filepath.Join(p.Dir, "zz_verif_"+f.Name())] = src
					stats["added"]++
				}
			}
		}
	}
	ob, _ := json.MarshalIndent(map[string]any{"Replace": overlay}, "", " ")
	os.WriteFile(filepath.Join(*out, "overlay.json"), ob, 0o644)
	sb, _ := json.Marshal(stats)
	os.WriteFile(filepath.Join(*out, "report.json"), sb, 0o644)
	fmt.Println(string(sb))
}

type rw struct {
	fset     *token.FileSet
	info     *types.Info
	stats    map[string]int
	file     string
	pkg      string
	disabled map[string]bool
	need     map[string]string // import path -> name to add
	useSimrt bool
	changed  bool
	tmp      int
}

func sel(pkg, name string) ast.Expr {
	return &ast.SelectorExpr{X: ast.NewIdent(pkg), Sel: ast.NewIdent(name)}
}

func yieldStmt() ast.Stmt {
	return &ast.ExprStmt{X: &ast.CallExpr{Fun: sel("simrt", "Yield")}}
}

func (r *rw) file_(f *ast.File) bool {
	// R6 first: whole-file callee substitution
	if !r.disabled["R6"] {
		r.substCalls(f)
		r.substTypes(f)
	}
	// R1
	if !r.disabled["R1"] {
		for _, is := range f.Imports {
			if is.Path.Value == `"sync"` {
				is.Path.Value = `"verifsim/vsync"`
				is.Name = ast.NewIdent("sync")
				r.changed = true
				r.stats["R1"]++
			}
		}
	}
	for _, d := range f.Decls {
		if fd, ok := d.(*ast.FuncDecl); ok && fd.Body != nil {
			r.block(fd.Body)
		}
		// function literals in var decls
		if gd, ok := d.(*ast.GenDecl); ok {
			ast.Inspect(gd, func(n ast.Node) bool {
				if fl, ok := n.(*ast.FuncLit); ok {
					r.block(fl.Body)
					return false
				}
				return true
			})
		}
	}
	if r.useSimrt {
		r.need["verifsim/simrt"] = "simrt"
	}
	if !r.changed {
		return false
	}
	// imports that lost their last use become blank imports
	used := map[types.Object]bool{}
	ast.Inspect(f, func(n ast.Node) bool {
		if id, ok := n.(*ast.Ident); ok {
			if pn, ok := r.info.Uses[id].(*types.PkgName); ok {
				used[pn] = true
			}
		}
		return true
	})
	for _, is := range f.Imports {
		var obj types.Object
		if is.Name != nil {
			obj = r.info.Defs[is.Name]
		} else {
			obj = r.info.Implicits[is]
		}
		if obj == nil {
			continue
		}
		if _, ok := obj.(*types.PkgName); ok && !used[obj] {
			if is.Path.Value == `"verifsim/vsync"` {
				continue
			}
			is.Name = ast.NewIdent("_")
		}
	}
	var paths []string
	for p := range r.need {
		paths = append(paths, p)
	}
	sort.Strings(paths)
	var decls []ast.Decl
	for _, p := range paths {
		decls = append(decls, &ast.GenDecl{Tok: token.IMPORT, Specs: []ast.Spec{&ast.ImportSpec{Name: ast.NewIdent(r.need[p]), Path: &ast.BasicLit{Kind: token.STRING, Value: fmt.Sprintf("%q", p)}}}})
	}
	f.Decls = append(decls, f.Decls...)
	return true
}

// typeSubsts: references to the named type (pkg, name) become newPkg.newName (R6, types).
var typeSubsts = []subst{
	{pkg: "google.golang.org/grpc", name: "ClientConn", newPath: "verifsim/simfed", newPkg: "simfed", newName: "ClientConn", onlyIn: gm + "/plugin/federation"},
}

// substTypes implements R6 for type references.
func (r *rw) substTypes(f *ast.File) {
	ast.Inspect(f, func(n ast.Node) bool {
		se, ok := n.(*ast.SelectorExpr)
		if !ok {
			return true
		}
		tn, ok := r.info.Uses[se.Sel].(*types.TypeName)
		if !ok || tn.Pkg() == nil {
			return true
		}
		for _, s := range typeSubsts {
			if s.pkg != tn.Pkg().Path() || s.name != tn.Name() || (s.onlyIn != "" && s.onlyIn != r.pkg) {
				continue
			}
			se.X = ast.NewIdent(s.newPkg)
			se.Sel = ast.NewIdent(s.newName)
			r.need[s.newPath] = s.newPkg
			r.changed = true
			r.stats["R6"]++
			break
		}
		return true
	})
}

// substCalls implements R6.
func (r *rw) substCalls(f *ast.File) {
	ast.Inspect(f, func(n ast.Node) bool {
		call, ok := n.(*ast.CallExpr)
		if !ok {
			return true
		}
		se, ok := call.Fun.(*ast.SelectorExpr)
		if !ok {
			return true
		}
		obj := r.info.Uses[se.Sel]
		fn, ok := obj.(*types.Func)
		if !ok || fn.Pkg() == nil {
			return true
		}
		recv := ""
		if sig, ok := fn.Type().(*types.Signature); ok && sig.Recv() != nil {
			t := sig.Recv().Type()
			if pt, ok := t.(*types.Pointer); ok {
				t = pt.Elem()
			}
			if nt, ok := t.(*types.Named); ok {
				recv = nt.Obj().Name()
			}
		}
		for _, s := range substs {
			if s.pkg != fn.Pkg().Path() || s.name != fn.Name() || s.recv != recv {
				continue
			}
			if s.onlyIn != "" && s.onlyIn != r.pkg {
				continue
			}
			if recv != "" {
				call.Args = append([]ast.Expr{se.X}, call.Args...)
			}
			call.Fun = sel(s.newPkg, s.newName)
			r.need[s.newPath] = s.newPkg
			r.changed = true
			r.stats["R6"]++
			break
		}
		return true
	})
}

func (r *rw) block(b *ast.BlockStmt) {
	if b == nil {
		return
	}
	b.List = r.list(b.List)
}

func (r *rw) exprFuncLits(n ast.Node) {
	if n == nil {
		return
	}
	ast.Inspect(n, func(x ast.Node) bool {
		if fl, ok := x.(*ast.FuncLit); ok {
			r.block(fl.Body)
			return false
		}
		return true
	})
}

func isRecv(e ast.Expr) bool {
	if p, ok := e.(*ast.ParenExpr); ok {
		return isRecv(p.X)
	}
	u, ok := e.(*ast.UnaryExpr)
	return ok && u.Op == token.ARROW
}

func (r *rw) list(in []ast.Stmt) []ast.Stmt {
	var out []ast.Stmt
	for _, s := range in {
		out = append(out, r.stmt(s)...)
	}
	return out
}

func (r *rw) mark(rule string) {
	r.changed = true
	r.useSimrt = true
	r.stats[rule]++
}

func (r *rw) stmt(s ast.Stmt) []ast.Stmt {
	switch s := s.(type) {
	case *ast.BlockStmt:
		r.block(s)
	case *ast.IfStmt:
		if s.Init != nil {
			r.exprFuncLits(s.Init)
			// R7: if re := recover(); re != nil { ... }
			if as, ok := s.Init.(*ast.AssignStmt); ok && len(as.Rhs) == 1 {
				if ce, ok := as.Rhs[0].(*ast.CallExpr); ok {
					if id, ok := ce.Fun.(*ast.Ident); ok && id.Name == "recover" && len(as.Lhs) == 1 {
						if lid, ok := as.Lhs[0].(*ast.Ident); ok {
							probe := &ast.ExprStmt{X: &ast.CallExpr{Fun: sel("simrt", "NotePanic"), Args: []ast.Expr{ast.NewIdent(lid.Name)}}}
							s.Body.List = append([]ast.Stmt{probe}, s.Body.List...)
							r.mark("R7")
						}
					}
				}
			}
		}
		r.exprFuncLits(s.Cond)
		r.block(s.Body)
		if s.Else != nil {
			s.Else = r.stmt(s.Else)[0]
		}
	case *ast.ForStmt:
		r.exprFuncLits(s.Init)
		r.exprFuncLits(s.Cond)
		r.exprFuncLits(s.Post)
		r.block(s.Body)
	case *ast.RangeStmt:
		r.exprFuncLits(s.X)
		r.block(s.Body)
		if t := r.info.TypeOf(s.X); t != nil {
			if _, ok := t.Underlying().(*types.Chan); ok {
				s.Body.List = append([]ast.Stmt{yieldStmt()}, s.Body.List...)
				r.mark("R3range")
			}
			if mt, ok := t.Underlying().(*types.Map); ok && s.Tok == token.DEFINE {
				if bt, ok := mt.Key().Underlying().(*types.Basic); ok && bt.Info()&(types.IsInteger|types.IsString) != 0 {
					return []ast.Stmt{r.mapRange(s)}
				}
				r.stats["R5skipped"]++
			}
		}
	case *ast.SwitchStmt:
		r.exprFuncLits(s.Init)
		r.exprFuncLits(s.Tag)
		for _, c := range s.Body.List {
			cc := c.(*ast.CaseClause)
			cc.Body = r.list(cc.Body)
		}
	case *ast.TypeSwitchStmt:
		for _, c := range s.Body.List {
			cc := c.(*ast.CaseClause)
			cc.Body = r.list(cc.Body)
		}
	case *ast.SelectStmt:
		ncomm := 0
		for _, c := range s.Body.List {
			cc := c.(*ast.CommClause)
			cc.Body = r.list(cc.Body)
			if cc.Comm != nil {
				ncomm++
			}
		}
		if ncomm >= 2 {
			if st := r.selectStmt(s); st != nil {
				return []ast.Stmt{st}
			}
			r.stats["R4skipped"]++
		}
		for _, c := range s.Body.List {
			cc := c.(*ast.CommClause)
			if cc.Comm != nil {
				cc.Body = append([]ast.Stmt{yieldStmt()}, cc.Body...)
				r.mark("R3select")
			}
		}
	case *ast.LabeledStmt:
		inner := r.stmt(s.Stmt)
		s.Stmt = inner[0]
		return append([]ast.Stmt{s}, inner[1:]...)
	case *ast.GoStmt:
		return []ast.Stmt{r.goStmt(s)}
	case *ast.SendStmt:
		r.exprFuncLits(s)
		r.mark("R3send")
		return []ast.Stmt{s, yieldStmt()}
	case *ast.ExprStmt:
		r.exprFuncLits(s.X)
		if isRecv(s.X) {
			r.mark("R3recv")
			return []ast.Stmt{s, yieldStmt()}
		}
	case *ast.AssignStmt:
		for _, e := range s.Rhs {
			r.exprFuncLits(e)
		}
		if len(s.Rhs) == 1 && isRecv(s.Rhs[0]) {
			r.mark("R3recv")
			return []ast.Stmt{s, yieldStmt()}
		}
	case *ast.DeferStmt:
		r.exprFuncLits(s.Call)
	case *ast.ReturnStmt:
		for _, e := range s.Results {
			r.exprFuncLits(e)
		}
	case *ast.DeclStmt:
		r.exprFuncLits(s.Decl)
	}
	return []ast.Stmt{s}
}

func id(n string) *ast.Ident { return ast.NewIdent(n) }

func define(lhs string, rhs ast.Expr) ast.Stmt {
	return &ast.AssignStmt{Lhs: []ast.Expr{id(lhs)}, Tok: token.DEFINE, Rhs: []ast.Expr{rhs}}
}

func setK(k string, v int) ast.Stmt {
	return &ast.AssignStmt{Lhs: []ast.Expr{id(k)}, Tok: token.ASSIGN, Rhs: []ast.Expr{&ast.BasicLit{Kind: token.INT, Value: fmt.Sprint(v)}}}
}

// selectStmt implements R4: simulator-ordered polling of ready clauses, then blocking select, bodies hoisted into a switch.
func (r *rw) selectStmt(s *ast.SelectStmt) ast.Stmt {
	r.tmp++
	pfx := fmt.Sprintf("__s%d", r.tmp)
	kvar := pfx + "k"
	var pre []ast.Stmt
	type clause struct {
		comm func() ast.Stmt // builds a fresh comm stmt using temps
		body []ast.Stmt
	}
	var clauses []clause
	var deflt []ast.Stmt
	hasDefault := false
	for i, c := range s.Body.List {
		cc := c.(*ast.CommClause)
		if cc.Comm == nil {
			hasDefault = true
			deflt = cc.Body
			continue
		}
		cvar := fmt.Sprintf("%sc%d", pfx, i)
		switch cm := cc.Comm.(type) {
		case *ast.SendStmt:
			vvar := fmt.Sprintf("%sv%d", pfx, i)
			pre = append(pre, define(cvar, cm.Chan), define(vvar, cm.Value))
			clauses = append(clauses, clause{comm: func() ast.Stmt { return &ast.SendStmt{Chan: id(cvar), Value: id(vvar)} }, body: cc.Body})
		case *ast.ExprStmt:
			u, ok := cm.X.(*ast.UnaryExpr)
			if !ok || u.Op != token.ARROW {
				return nil
			}
			pre = append(pre, define(cvar, u.X))
			clauses = append(clauses, clause{comm: func() ast.Stmt { return &ast.ExprStmt{X: &ast.UnaryExpr{Op: token.ARROW, X: id(cvar)}} }, body: cc.Body})
		case *ast.AssignStmt:
			if len(cm.Rhs) != 1 {
				return nil
			}
			u, ok := cm.Rhs[0].(*ast.UnaryExpr)
			if !ok || u.Op != token.ARROW {
				return nil
			}
			pre = append(pre, define(cvar, u.X))
			rvar := fmt.Sprintf("%sr%d", pfx, i)
			okvar := fmt.Sprintf("%so%d", pfx, i)
			pre = append(pre, define(rvar, &ast.CallExpr{Fun: sel("simrt", "ZeroElem"), Args: []ast.Expr{id(cvar)}}))
			pre = append(pre, &ast.AssignStmt{Lhs: []ast.Expr{id("_")}, Tok: token.ASSIGN, Rhs: []ast.Expr{id(rvar)}})
			two := len(cm.Lhs) == 2
			if two {
				pre = append(pre, define(okvar, id("false")), &ast.AssignStmt{Lhs: []ast.Expr{id("_")}, Tok: token.ASSIGN, Rhs: []ast.Expr{id(okvar)}})
			}
			lhs := cm.Lhs
			tok := cm.Tok
			var head []ast.Stmt
			// bind the user's variables at the top of the hoisted body
			rhs := []ast.Expr{id(rvar)}
			if two {
				rhs = append(rhs, id(okvar))
			}
			head = append(head, &ast.AssignStmt{Lhs: lhs, Tok: tok, Rhs: rhs})
			if tok == token.DEFINE {
				for _, l := range lhs {
					if li, ok := l.(*ast.Ident); ok && li.Name != "_" {
						head = append(head, &ast.AssignStmt{Lhs: []ast.Expr{id("_")}, Tok: token.ASSIGN, Rhs: []ast.Expr{id(li.Name)}})
					}
				}
			}
			clauses = append(clauses, clause{comm: func() ast.Stmt {
				l := []ast.Expr{id(rvar)}
				if two {
					l = append(l, id(okvar))
				}
				return &ast.AssignStmt{Lhs: l, Tok: token.ASSIGN, Rhs: []ast.Expr{&ast.UnaryExpr{Op: token.ARROW, X: id(cvar)}}}
			}, body: append(head, cc.Body...)})
		default:
			return nil
		}
	}
	n := len(clauses)
	pre = append(pre, define(kvar, &ast.UnaryExpr{Op: token.SUB, X: &ast.BasicLit{Kind: token.INT, Value: "1"}}))
	// phase 1
	ivar := pfx + "i"
	var pollCases []ast.Stmt
	for i, c := range clauses {
		poll := &ast.SelectStmt{Body: &ast.BlockStmt{List: []ast.Stmt{
			&ast.CommClause{Comm: c.comm(), Body: []ast.Stmt{setK(kvar, i)}},
			&ast.CommClause{},
		}}}
		pollCases = append(pollCases, &ast.CaseClause{List: []ast.Expr{&ast.BasicLit{Kind: token.INT, Value: fmt.Sprint(i)}}, Body: []ast.Stmt{poll}})
	}
	phase1 := &ast.RangeStmt{Key: id("_"), Value: id(ivar), Tok: token.DEFINE,
		X: &ast.CallExpr{Fun: sel("simrt", "SelectOrder"), Args: []ast.Expr{&ast.BasicLit{Kind: token.INT, Value: fmt.Sprint(n)}}},
		Body: &ast.BlockStmt{List: []ast.Stmt{
			&ast.SwitchStmt{Tag: id(ivar), Body: &ast.BlockStmt{List: pollCases}},
			&ast.IfStmt{Cond: &ast.BinaryExpr{X: id(kvar), Op: token.GEQ, Y: &ast.BasicLit{Kind: token.INT, Value: "0"}}, Body: &ast.BlockStmt{List: []ast.Stmt{&ast.BranchStmt{Tok: token.BREAK}}}},
		}}}
	// phase 2
	var blockCases []ast.Stmt
	for i, c := range clauses {
		blockCases = append(blockCases, &ast.CommClause{Comm: c.comm(), Body: []ast.Stmt{setK(kvar, i)}})
	}
	if hasDefault {
		blockCases = append(blockCases, &ast.CommClause{Body: []ast.Stmt{setK(kvar, n)}})
	}
	phase2 := &ast.IfStmt{Cond: &ast.BinaryExpr{X: id(kvar), Op: token.LSS, Y: &ast.BasicLit{Kind: token.INT, Value: "0"}},
		Body: &ast.BlockStmt{List: []ast.Stmt{&ast.SelectStmt{Body: &ast.BlockStmt{List: blockCases}}}}}
	// dispatch
	var disp []ast.Stmt
	for i, c := range clauses {
		disp = append(disp, &ast.CaseClause{List: []ast.Expr{&ast.BasicLit{Kind: token.INT, Value: fmt.Sprint(i)}}, Body: c.body})
	}
	if hasDefault {
		disp = append(disp, &ast.CaseClause{List: []ast.Expr{&ast.BasicLit{Kind: token.INT, Value: fmt.Sprint(n)}}, Body: deflt})
	}
	sw := &ast.SwitchStmt{Tag: id(kvar), Body: &ast.BlockStmt{List: disp}}
	r.mark("R4")
	out := append(pre, phase1, phase2, yieldStmt(), sw)
	return &ast.BlockStmt{List: out}
}

func (r *rw) mapRange(s *ast.RangeStmt) ast.Stmt {
	r.mark("R5")
	r.tmp++
	mname := fmt.Sprintf("__m%d", r.tmp)
	kname := fmt.Sprintf("__k%d", r.tmp)
	if id, ok := s.Key.(*ast.Ident); ok && id.Name != "_" {
		kname = id.Name
	}
	pre := &ast.AssignStmt{Lhs: []ast.Expr{ast.NewIdent(mname)}, Tok: token.DEFINE, Rhs: []ast.Expr{s.X}}
	vname := "_"
	if s.Value != nil {
		if id, ok := s.Value.(*ast.Ident); ok {
			vname = id.Name
		}
	}
	idx := &ast.IndexExpr{X: ast.NewIdent(mname), Index: ast.NewIdent(kname)}
	get := &ast.AssignStmt{Lhs: []ast.Expr{ast.NewIdent(vname), ast.NewIdent("__ok")}, Tok: token.DEFINE, Rhs: []ast.Expr{idx}}
	chk := &ast.IfStmt{Cond: &ast.UnaryExpr{Op: token.NOT, X: ast.NewIdent("__ok")}, Body: &ast.BlockStmt{List: []ast.Stmt{&ast.BranchStmt{Tok: token.CONTINUE}}}}
	body := append([]ast.Stmt{get, chk}, s.Body.List...)
	if vname != "_" {
		// avoid "declared and not used"
		body = append([]ast.Stmt{get, chk, &ast.AssignStmt{Lhs: []ast.Expr{ast.NewIdent("_")}, Tok: token.ASSIGN, Rhs: []ast.Expr{ast.NewIdent(vname)}}}, s.Body.List...)
	}
	loop := &ast.RangeStmt{Key: ast.NewIdent("_"), Value: ast.NewIdent(kname), Tok: token.DEFINE,
		X:    &ast.CallExpr{Fun: sel("simrt", "SortedKeys"), Args: []ast.Expr{ast.NewIdent(mname)}},
		Body: &ast.BlockStmt{List: body}}
	if kname != "_" {
		loop.Body.List = append([]ast.Stmt{&ast.AssignStmt{Lhs: []ast.Expr{ast.NewIdent("_")}, Tok: token.ASSIGN, Rhs: []ast.Expr{ast.NewIdent(kname)}}}, loop.Body.List...)
	}
	return &ast.BlockStmt{List: []ast.Stmt{pre, loop}}
}

func (r *rw) goStmt(g *ast.GoStmt) ast.Stmt {
	r.mark("R2")
	call := g.Call
	// process nested function literal bodies first
	r.exprFuncLits(call)
	pos := r.fset.Position(g.Pos())
	name := &ast.BasicLit{Kind: token.STRING, Value: fmt.Sprintf("%q", fmt.Sprintf("%s:%d", r.file, pos.Line))}
	var pre []ast.Stmt
	newArgs := make([]ast.Expr, len(call.Args))
	for i, a := range call.Args {
		r.tmp++
		id := fmt.Sprintf("__g%d", r.tmp)
		pre = append(pre, &ast.AssignStmt{Lhs: []ast.Expr{ast.NewIdent(id)}, Tok: token.DEFINE, Rhs: []ast.Expr{a}})
		newArgs[i] = ast.NewIdent(id)
	}
	fun := call.Fun
	if fl, ok := fun.(*ast.FuncLit); ok {
		fun = &ast.ParenExpr{X: fl}
	}
	inner := &ast.CallExpr{Fun: fun, Args: newArgs, Ellipsis: call.Ellipsis}
	lit := &ast.FuncLit{Type: &ast.FuncType{Params: &ast.FieldList{}}, Body: &ast.BlockStmt{List: []ast.Stmt{&ast.ExprStmt{X: inner}}}}
	goCall := &ast.ExprStmt{X: &ast.CallExpr{Fun: sel("simrt", "Go"), Args: []ast.Expr{name, lit}}}
	return &ast.BlockStmt{List: append(pre, goCall)}
}
