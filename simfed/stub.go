// Package simfed holds the federation stubs (serf membership, gRPC objects).
package simfed
