// Package simfed is the simulator's stand-in for the two things gmqtt's federation plugin talks to:
// serf (cluster membership events) and gRPC (the Hello / EventStream RPCs between nodes).
//
// The federation plugin itself, its generated protobuf / gRPC stubs and the protobuf encoding run
// unmodified; the overlay only redirects serf.Create, net.Listen, grpc.NewServer, grpc.Dial,
// *grpc.ClientConn and uuid.New to this package.  Messages cross the simulated transport as their
// protobuf encoding with seeded latency; a transport can be cut at any message boundary in either
// direction (a partially transmitted gRPC message never reaches the application, so message
// boundaries are exactly the distinguishable cut points), each side learning of the cut at its
// own, later, moment.  Membership events are delivered per observer, in any legal serf order.
package simfed

import (
	"context"
	"errors"
	"fmt"
	"io"
	"math/rand/v2"
	"net"
	"sort"
	"sync"
	"time"

	"github.com/hashicorp/serf/serf"
	"google.golang.org/grpc"
	"google.golang.org/grpc/codes"
	"google.golang.org/grpc/metadata"
	"google.golang.org/grpc/status"
	"google.golang.org/protobuf/proto"

	"verifsim/simrt"
)

// Frame is one message on a simulated transport (kept for the oracles).
type Frame struct {
	Seq       int
	RPC       int
	From, To  string // node names of sender and receiver
	Method    string
	Kind      string // open, msg, resp, close (client half-close), trailer (handler returned), rst
	Type      string // protobuf full name of the message
	B         []byte
	SentStep  int
	SentAt    time.Duration
	DelivStep int // 0 while in flight
	Lost      bool
	Err       string // trailer / resp status
	cutAfter  bool
}

// Cluster is the per-run registry of simulated serf agents, gRPC servers and transports.
type Cluster struct {
	S     *simrt.Sched
	After func(d time.Duration, name string, fn func()) // schedules a simulator event (root context)
	Rng   *rand.Rand
	T0    time.Time

	LatMin, LatMax       time.Duration  // message latency
	NoticeMin, NoticeMax time.Duration  // how long after a cut each side learns of it
	GossipMin, GossipMax time.Duration  // membership event propagation
	OnDeliver            func(f *Frame) // called (simulator context) when a frame has been handed to its receiver's inbox
	CutProb              float64        // probability that sending a message cuts the transport it travels on
	MaxCuts              int
	FaultsOn             bool

	mu        sync.Mutex
	serfs     map[string]*Serf   // node name -> current agent
	servers   map[string]*Server // fed addr -> live server
	AddrNode  map[string]string  // fed addr / gossip addr -> node name
	blocked   map[[2]string]bool // directed reachability (by node name)
	holdBack  map[[2]string]bool // (client node, server node): what the server sends back on their streams is held up
	rpcs      []*RPC
	Log       []*Frame
	Members   []MemberEvent // every membership event delivered
	Faults    map[string]int
	LastFault time.Duration // simulated time of the last injected fault or membership event
	seq       int
	cuts      int
	uuid      int
}

// MemberEvent records one membership notification as delivered to an observer.
type MemberEvent struct {
	Step     int
	At       time.Duration
	Observer string
	Subject  string
	Type     string
	Gen      int // observer generation
}

var (
	curMu sync.Mutex
	cur   *Cluster
)

// Install makes c the cluster used by the redirected calls (nil to remove).
//
//go:norace
func Install(c *Cluster) {
	curMu.Lock()
	defer curMu.Unlock()
	if c != nil {
		if c.serfs == nil {
			c.serfs = map[string]*Serf{}
		}
		if c.servers == nil {
			c.servers = map[string]*Server{}
		}
		if c.AddrNode == nil {
			c.AddrNode = map[string]string{}
		}
		if c.blocked == nil {
			c.blocked = map[[2]string]bool{}
		}
		if c.holdBack == nil {
			c.holdBack = map[[2]string]bool{}
		}
		if c.Faults == nil {
			c.Faults = map[string]int{}
		}
	}
	cur = c
}

// Active returns the installed cluster.
//
//go:norace
func Active() *Cluster {
	curMu.Lock()
	defer curMu.Unlock()
	return cur
}

//go:norace
func (c *Cluster) dur(lo, hi time.Duration) time.Duration {
	if hi <= lo {
		return lo
	}
	return lo + time.Duration(c.Rng.Int64N(int64(hi-lo)+1))
}

//go:norace
func (c *Cluster) now() time.Duration { return time.Since(c.T0) }

// ---------------------------------------------------------------- uuid

// U is the return type of the redirected uuid.New.
type U string

//go:norace
func (u U) String() string { return string(u) }

// UUID replaces uuid.New: unique per run, deterministic.
//
//go:norace
func UUID() U {
	c := Active()
	if c == nil {
		return U(simrt.UUID())
	}
	c.mu.Lock()
	defer c.mu.Unlock()
	c.uuid++
	return U(fmt.Sprintf("5e551000-0000-4000-8000-%012d", c.uuid))
}

// ---------------------------------------------------------------- serf

// Serf implements the subset of *serf.Serf the plugin uses (its iSerf interface).
type Serf struct {
	cl      *Cluster
	Name    string
	Tags    map[string]string
	Gen     int
	eventCh chan<- serf.Event
	view    map[string]serf.MemberStatus // this agent's opinion of the others
	State   string                       // alive, left, shutdown, dead
	Joined  bool
}

// SerfCreate replaces serf.Create.
//
//go:norace
func SerfCreate(conf *serf.Config) (*Serf, error) {
	c := Active()
	if c == nil {
		return nil, errors.New("simfed: no cluster installed")
	}
	c.mu.Lock()
	defer c.mu.Unlock()
	gen := 1
	if old := c.serfs[conf.NodeName]; old != nil {
		gen = old.Gen + 1
		if old.State == "alive" {
			old.State = "dead"
		}
	}
	s := &Serf{cl: c, Name: conf.NodeName, Tags: conf.Tags, Gen: gen, eventCh: conf.EventCh, view: map[string]serf.MemberStatus{}, State: "alive"}
	c.serfs[conf.NodeName] = s
	// serf reports the local node as its first member event
	c.pushLocked(s, conf.NodeName, serf.EventMemberJoin)
	return s, nil
}

//go:norace
func (c *Cluster) member(name string) serf.Member {
	m := serf.Member{Name: name, Addr: net.IPv4(10, 0, 0, 1), Port: 8902, Status: serf.StatusAlive}
	if s := c.serfs[name]; s != nil {
		m.Tags = map[string]string{}
		for k, v := range s.Tags {
			m.Tags[k] = v
		}
	}
	return m
}

// pushLocked delivers a membership event to observer o if it is a legal transition of o's view.
//
//go:norace
func (c *Cluster) pushLocked(o *Serf, subject string, typ serf.EventType) bool {
	if o.State != "alive" {
		return false
	}
	cur, known := o.view[subject]
	switch typ {
	case serf.EventMemberJoin:
		if known && cur == serf.StatusAlive {
			return false
		}
		o.view[subject] = serf.StatusAlive
	case serf.EventMemberLeave:
		if !known || cur != serf.StatusAlive {
			return false
		}
		o.view[subject] = serf.StatusLeft
	case serf.EventMemberFailed:
		if !known || cur != serf.StatusAlive {
			return false
		}
		o.view[subject] = serf.StatusFailed
	case serf.EventMemberReap:
		if !known || cur == serf.StatusAlive {
			return false
		}
		delete(o.view, subject)
	}
	m := c.member(subject)
	m.Status = o.view[subject]
	ev := serf.MemberEvent{Type: typ, Members: []serf.Member{m}}
	select {
	case o.eventCh <- ev:
	default:
		panic("simfed: serf event channel full")
	}
	c.LastFault = c.now()
	c.Members = append(c.Members, MemberEvent{Step: c.S.StepCnt, At: c.now(), Observer: o.Name, Subject: subject, Type: typ.String(), Gen: o.Gen})
	return true
}

// Notify schedules delivery of a membership event about subject to observer after the gossip delay.
//
//go:norace
func (c *Cluster) Notify(observer, subject string, typ serf.EventType, d time.Duration) {
	c.After(d, fmt.Sprintf("gossip:%s sees %s %s", observer, subject, typ), func() {
		c.mu.Lock()
		defer c.mu.Unlock()
		if o := c.serfs[observer]; o != nil {
			c.pushLocked(o, subject, typ)
		}
	})
}

// Alive reports whether the node's agent is running.
//
//go:norace
func (c *Cluster) Alive(name string) bool {
	c.mu.Lock()
	defer c.mu.Unlock()
	s := c.serfs[name]
	return s != nil && s.State == "alive"
}

// View returns observer's current opinion of subject ("" if unknown).
//
//go:norace
func (c *Cluster) View(observer, subject string) string {
	c.mu.Lock()
	defer c.mu.Unlock()
	o := c.serfs[observer]
	if o == nil {
		return ""
	}
	st, ok := o.view[subject]
	if !ok {
		return ""
	}
	return st.String()
}

// Join implements iSerf.
//
//go:norace
func (s *Serf) Join(existing []string, ignoreOld bool) (int, error) {
	simrt.Yield()
	c := s.cl
	c.mu.Lock()
	defer c.mu.Unlock()
	if s.State != "alive" {
		return 0, errors.New("serf: not alive")
	}
	n := 0
	for _, a := range existing {
		name := c.AddrNode[a]
		if o := c.serfs[name]; o != nil && o.State == "alive" && name != s.Name && !c.blocked[[2]string{s.Name, name}] {
			n++
		}
	}
	if len(existing) > 0 && n == 0 {
		return 0, fmt.Errorf("Failed to join any of %v: unreachable", existing)
	}
	s.Joined = true
	// gossip: every alive agent that is part of the cluster learns of s and s learns of them
	names := make([]string, 0, len(c.serfs))
	for k := range c.serfs {
		names = append(names, k)
	}
	sort.Strings(names)
	for _, k := range names {
		o := c.serfs[k]
		if o == s || o.State != "alive" {
			continue
		}
		c.Notify(s.Name, k, serf.EventMemberJoin, c.dur(c.GossipMin, c.GossipMax))
		c.Notify(k, s.Name, serf.EventMemberJoin, c.dur(c.GossipMin, c.GossipMax))
	}
	return n, nil
}

// RemoveFailedNode implements iSerf.
//
//go:norace
func (s *Serf) RemoveFailedNode(node string) error { return nil }

// Leave implements iSerf: the others see a graceful leave.
//
//go:norace
func (s *Serf) Leave() error {
	simrt.Yield()
	c := s.cl
	c.mu.Lock()
	defer c.mu.Unlock()
	if s.State != "alive" {
		return nil
	}
	s.State = "left"
	for _, k := range sortedSerfs(c.serfs) {
		if o := c.serfs[k]; o != s && o.State == "alive" {
			c.Notify(k, s.Name, serf.EventMemberLeave, c.dur(c.GossipMin, c.GossipMax))
		}
	}
	return nil
}

//go:norace
func sortedSerfs(m map[string]*Serf) []string {
	names := make([]string, 0, len(m))
	for k := range m {
		names = append(names, k)
	}
	sort.Strings(names)
	return names
}

// Members implements iSerf.
//
//go:norace
func (s *Serf) Members() []serf.Member {
	c := s.cl
	c.mu.Lock()
	defer c.mu.Unlock()
	var out []serf.Member
	names := make([]string, 0, len(s.view))
	for k := range s.view {
		names = append(names, k)
	}
	sort.Strings(names)
	for _, k := range names {
		m := c.member(k)
		m.Status = s.view[k]
		out = append(out, m)
	}
	return out
}

// Shutdown implements iSerf.
//
//go:norace
func (s *Serf) Shutdown() error {
	c := s.cl
	c.mu.Lock()
	defer c.mu.Unlock()
	if s.State == "alive" {
		s.State = "shutdown"
	}
	return nil
}

// ---------------------------------------------------------------- reachability and node death

// Block makes new RPCs from node a to node b fail and cuts the transports that exist (directed).
//
//go:norace
func (c *Cluster) Block(a, b string, on bool) {
	c.mu.Lock()
	c.blocked[[2]string{a, b}] = on
	var hit []*RPC
	if on {
		for _, r := range c.rpcs {
			if r.From == a && r.To == b && !r.dead {
				hit = append(hit, r)
			}
		}
	}
	c.mu.Unlock()
	for _, r := range hit {
		r.Cut("partition")
	}
}

// HoldBack makes everything server b sends back to client a on their RPCs hang in the network (it is lost if
// the transport is cut meanwhile, delivered when the hold is lifted): acknowledgements that do not arrive.
func (c *Cluster) HoldBack(a, b string, on bool) {
	c.mu.Lock()
	c.holdBack[[2]string{a, b}] = on
	var release []*RPC
	if !on {
		for _, r := range c.rpcs {
			if r.From == a && r.To == b && !r.dead && len(r.cli.flight) > 0 {
				release = append(release, r)
			}
		}
	}
	c.mu.Unlock()
	for _, r := range release {
		r := r
		c.mu.Lock()
		n := len(r.cli.flight)
		c.mu.Unlock()
		for i := 0; i < n; i++ {
			c.After(c.dur(c.LatMin, c.LatMax), fmt.Sprintf("rpc%d deliver (released)", r.ID), func() { r.deliverOne(&r.cli) })
		}
	}
}

// KillNode models the death of a node's process: its agent stops, its gRPC server disappears, every
// transport from or to it is cut and nothing it still sends leaves the machine.
//
//go:norace
func (c *Cluster) KillNode(name string) {
	c.mu.Lock()
	c.LastFault = c.now()
	if s := c.serfs[name]; s != nil {
		s.State = "dead"
	}
	for addr, srv := range c.servers {
		if srv.Node == name {
			srv.dead = true
			delete(c.servers, addr)
		}
	}
	var hit []*RPC
	for _, r := range c.rpcs {
		if (r.From == name || r.To == name) && !r.dead {
			hit = append(hit, r)
		}
	}
	c.mu.Unlock()
	for _, r := range hit {
		r.Cut("node death")
	}
}

// CutBetween cuts every live transport between client node a and server node b; returns how many.
//
//go:norace
func (c *Cluster) CutBetween(a, b string) int {
	c.mu.Lock()
	var hit []*RPC
	for _, r := range c.rpcs {
		if r.From == a && r.To == b && !r.dead {
			hit = append(hit, r)
		}
	}
	c.mu.Unlock()
	for _, r := range hit {
		r.Cut("injected cut")
	}
	return len(hit)
}

// ActiveStreams returns the number of live streaming RPCs from a to b.
//
//go:norace
func (c *Cluster) ActiveStreams(a, b string) int {
	c.mu.Lock()
	defer c.mu.Unlock()
	n := 0
	for _, r := range c.rpcs {
		if r.From == a && r.To == b && !r.dead && r.Stream && !r.finished {
			n++
		}
	}
	return n
}

// ---------------------------------------------------------------- gRPC server

type service struct {
	desc *grpc.ServiceDesc
	impl any
}

// Server replaces *grpc.Server.
type Server struct {
	cl       *Cluster
	services map[string]*service
	Addr     string
	Node     string
	dead     bool
	waiters  []*simrt.Task
}

// NewGRPCServer replaces grpc.NewServer.
//
//go:norace
func NewGRPCServer(opts ...grpc.ServerOption) *Server {
	return &Server{cl: Active(), services: map[string]*service{}}
}

// RegisterService implements grpc.ServiceRegistrar.
//
//go:norace
func (s *Server) RegisterService(desc *grpc.ServiceDesc, impl any) {
	s.services[desc.ServiceName] = &service{desc, impl}
}

type listener struct {
	addr string
	cl   *Cluster
}

//go:norace
func (l *listener) Accept() (net.Conn, error) { return nil, errors.New("simfed: not a real listener") }

//go:norace
func (l *listener) Close() error { return nil }

//go:norace
func (l *listener) Addr() net.Addr { return addr(l.addr) }

type addr string

//go:norace
func (a addr) Network() string { return "simfed" }

//go:norace
func (a addr) String() string { return string(a) }

// Listen replaces net.Listen in the federation plugin.
//
//go:norace
func Listen(network, address string) (net.Listener, error) {
	c := Active()
	if c == nil {
		return nil, errors.New("simfed: no cluster installed")
	}
	c.mu.Lock()
	defer c.mu.Unlock()
	if srv := c.servers[address]; srv != nil && !srv.dead {
		return nil, fmt.Errorf("listen tcp %s: bind: address already in use", address)
	}
	return &listener{addr: address, cl: c}, nil
}

// Serve registers the server at the listener's address and blocks until the server dies.
//
//go:norace
func (s *Server) Serve(l net.Listener) error {
	c := s.cl
	c.mu.Lock()
	s.Addr = l.Addr().String()
	s.Node = c.AddrNode[s.Addr]
	c.servers[s.Addr] = s
	c.mu.Unlock()
	t := c.S.Cur()
	for {
		c.mu.Lock()
		if s.dead {
			c.mu.Unlock()
			return nil
		}
		s.waiters = append(s.waiters, t)
		c.mu.Unlock()
		c.S.Block(t, "grpc.Serve "+s.Addr)
	}
}

// Stop ends Serve.
//
//go:norace
func (s *Server) Stop() {
	c := s.cl
	c.mu.Lock()
	s.dead = true
	if c.servers[s.Addr] == s {
		delete(c.servers, s.Addr)
	}
	w := s.waiters
	s.waiters = nil
	c.mu.Unlock()
	c.S.MakeRunnable(w...)
}

// GracefulStop is Stop.
//
//go:norace
func (s *Server) GracefulStop() { s.Stop() }

// ---------------------------------------------------------------- transports and RPCs

type side struct {
	inbox   []*Frame
	flight  []*Frame
	waiters []*simrt.Task
	knows   bool // this side has learnt that the transport is gone
	lastDue time.Time
}

// RPC is one unary call or stream together with the transport it runs on.
type RPC struct {
	ID       int
	From, To string
	Method   string
	Stream   bool
	cl       *Cluster
	cc       *ClientConn
	cli, srv side
	dead     bool // the transport is gone (either side may not know yet)
	doomed   bool // the transport goes with a message already travelling: what is sent now is lost
	finished bool // trailer delivered or client gave up
	reason   string
	cancel   context.CancelFunc
	srvCtx   context.Context
	md       metadata.MD
}

//go:norace
func (c *Cluster) wake(s *side) {
	w := s.waiters
	s.waiters = nil
	c.S.MakeRunnable(w...)
}

// Cut kills the transport now: frames in flight are lost; each side learns of it a little later.
//
//go:norace
func (r *RPC) Cut(reason string) {
	c := r.cl
	c.mu.Lock()
	if r.dead {
		c.mu.Unlock()
		return
	}
	r.dead = true
	r.reason = reason
	c.Faults["fed.cut:"+reason]++
	c.LastFault = c.now()
	for _, sd := range []*side{&r.cli, &r.srv} {
		for _, f := range sd.flight {
			f.Lost = true
		}
		sd.flight = nil
	}
	d1, d2 := c.dur(c.NoticeMin, c.NoticeMax), c.dur(c.NoticeMin, c.NoticeMax)
	if reason == "random, after message" && c.Rng.IntN(2) == 0 {
		// the receiver learns of the break at once (a reset that arrives on the heels of the message): the "learns"
		// event is due now, so the scheduler may fire it anywhere inside the receiver's handling of that message —
		// e.g. between applying an event and handing its acknowledgement to the transport
		d2 = 0
		c.Faults["fed.cut_noticed_at_once"]++
	}
	c.mu.Unlock()
	c.After(d1, fmt.Sprintf("rpc%d client learns of cut", r.ID), func() {
		c.mu.Lock()
		r.cli.knows = true
		c.mu.Unlock()
		c.wake(&r.cli)
	})
	c.After(d2, fmt.Sprintf("rpc%d server learns of cut", r.ID), func() {
		c.mu.Lock()
		r.srv.knows = true
		cancel := r.cancel
		c.mu.Unlock()
		if cancel != nil {
			cancel()
		}
		c.wake(&r.srv)
	})
}

// send puts a frame on the wire from one side to the other.
//
//go:norace
func (r *RPC) send(toServer bool, f *Frame) error {
	c := r.cl
	c.mu.Lock()
	me, peer := &r.srv, &r.cli
	f.From, f.To = r.To, r.From
	if toServer {
		me, peer = &r.cli, &r.srv
		f.From, f.To = r.From, r.To
	}
	if me.knows {
		c.mu.Unlock()
		return io.EOF
	}
	c.seq++
	f.Seq, f.RPC, f.Method, f.SentStep, f.SentAt = c.seq, r.ID, r.Method, c.S.StepCnt, c.now()
	c.Log = append(c.Log, f)
	if r.dead || r.doomed {
		f.Lost = true
		c.mu.Unlock()
		return nil
	}
	// fault: the transport breaks while this message is travelling
	cutNow := false
	if c.FaultsOn && c.CutProb > 0 && c.cuts < c.MaxCuts && c.Rng.Float64() < c.CutProb {
		c.cuts++
		// before (message lost) or after it (message delivered, what follows is lost)
		if c.Rng.IntN(2) == 0 {
			f.Lost = true
			c.mu.Unlock()
			r.Cut("random, message lost")
			return nil
		}
		cutNow = true
		r.doomed = true
	}
	at := time.Now().Add(c.dur(c.LatMin, c.LatMax))
	if at.Before(peer.lastDue) {
		at = peer.lastDue
	}
	peer.lastDue = at
	f.cutAfter = cutNow
	peer.flight = append(peer.flight, f)
	// one event per frame; whichever event fires first delivers the oldest frame in flight (FIFO)
	held := !toServer && c.holdBack[[2]string{r.From, r.To}]
	c.mu.Unlock()
	if held {
		c.mu.Lock()
		c.Faults["fed.reply_held_back"]++
		c.mu.Unlock()
		return nil // stays in flight until HoldBack(..., false) or a cut
	}
	c.After(time.Until(at), fmt.Sprintf("rpc%d deliver", r.ID), func() { r.deliverOne(peer) })
	return nil
}

// deliverOne hands the oldest frame in flight towards peer to its inbox.
//
//go:norace
func (r *RPC) deliverOne(peer *side) {
	c := r.cl
	c.mu.Lock()
	if len(peer.flight) == 0 {
		c.mu.Unlock()
		return
	}
	if peer == &r.cli && c.holdBack[[2]string{r.From, r.To}] {
		c.mu.Unlock()
		return
	}
	g := peer.flight[0]
	peer.flight = peer.flight[1:]
	if r.dead {
		g.Lost = true
		c.mu.Unlock()
		return
	}
	g.DelivStep = c.S.StepCnt
	peer.inbox = append(peer.inbox, g)
	cb := c.OnDeliver
	c.mu.Unlock()
	c.wake(peer)
	if cb != nil {
		cb(g)
	}
	if g.cutAfter {
		r.Cut("random, after message")
	}
}

// recv waits for the next frame for one side.
//
//go:norace
func (r *RPC) recv(server bool) (*Frame, error) {
	c := r.cl
	simrt.Yield()
	t := c.S.Cur()
	for {
		c.mu.Lock()
		me := &r.cli
		if server {
			me = &r.srv
		}
		if len(me.inbox) > 0 {
			f := me.inbox[0]
			me.inbox = me.inbox[1:]
			c.mu.Unlock()
			return f, nil
		}
		if me.knows {
			c.mu.Unlock()
			return nil, status.Error(codes.Unavailable, "transport is closing: "+r.reason)
		}
		me.waiters = append(me.waiters, t)
		c.mu.Unlock()
		c.S.Block(t, fmt.Sprintf("rpc%d recv", r.ID))
	}
}

// ClientConn replaces *grpc.ClientConn.
type ClientConn struct {
	cl     *Cluster
	Target string
	closed bool
	rpcs   []*RPC
}

// Dial replaces grpc.Dial (non-blocking, like the original).
//
//go:norace
func Dial(target string, opts ...grpc.DialOption) (*ClientConn, error) {
	c := Active()
	if c == nil {
		return nil, errors.New("simfed: no cluster installed")
	}
	return &ClientConn{cl: c, Target: target}, nil
}

// Close implements the part of grpc.ClientConn the plugin uses: every RPC on it is cancelled.
//
//go:norace
func (cc *ClientConn) Close() error {
	c := cc.cl
	c.mu.Lock()
	if cc.closed {
		c.mu.Unlock()
		return status.Error(codes.Canceled, "grpc: the client connection is closing")
	}
	cc.closed = true
	rpcs := append([]*RPC{}, cc.rpcs...)
	c.mu.Unlock()
	for _, r := range rpcs {
		c.mu.Lock()
		already := r.cli.knows
		r.cli.knows = true
		wasDead := r.dead
		r.dead = true
		if r.reason == "" {
			r.reason = "client connection closed"
		}
		c.mu.Unlock()
		if already {
			continue
		}
		c.wake(&r.cli)
		if !wasDead {
			// the server sees the streams reset after the usual delay
			c.After(c.dur(c.LatMin, c.LatMax), fmt.Sprintf("rpc%d reset by client", r.ID), func() {
				c.mu.Lock()
				r.srv.knows = true
				cancel := r.cancel
				c.mu.Unlock()
				if cancel != nil {
					cancel()
				}
				c.wake(&r.srv)
			})
		}
	}
	return nil
}

//go:norace
func (cc *ClientConn) open(ctx context.Context, method string, stream bool) (*RPC, *Server, error) {
	c := cc.cl
	simrt.Yield()
	md, _ := metadata.FromOutgoingContext(ctx)
	from := ""
	if v := md.Get("node_name"); len(v) > 0 {
		from = v[0]
	}
	c.mu.Lock()
	defer c.mu.Unlock()
	if cc.closed {
		return nil, nil, status.Error(codes.Canceled, "grpc: the client connection is closing")
	}
	to := c.AddrNode[cc.Target]
	if s := c.serfs[from]; s != nil && s.State == "dead" {
		return nil, nil, status.Error(codes.Unavailable, "connection error: local node is down")
	}
	srv := c.servers[cc.Target]
	if srv == nil || srv.dead || c.blocked[[2]string{from, to}] {
		c.Faults["fed.unreachable"]++
		return nil, nil, status.Errorf(codes.Unavailable, "connection error: desc = \"transport: Error while dialing dial tcp %s: connect: connection refused\"", cc.Target)
	}
	r := &RPC{ID: len(c.rpcs) + 1, From: from, To: to, Method: method, Stream: stream, cl: c, cc: cc, md: md.Copy()}
	c.rpcs = append(c.rpcs, r)
	cc.rpcs = append(cc.rpcs, r)
	return r, srv, nil
}

//go:norace
func splitMethod(m string) (svc, name string) {
	// "/pkg.Service/Method"
	for i := len(m) - 1; i > 0; i-- {
		if m[i] == '/' {
			return m[1:i], m[i+1:]
		}
	}
	return "", m
}

//go:norace
func typeName(m any) string {
	if pm, ok := m.(proto.Message); ok {
		return string(pm.ProtoReflect().Descriptor().FullName())
	}
	return fmt.Sprintf("%T", m)
}

// Invoke implements grpc.ClientConnInterface (unary call).
//
//go:norace
func (cc *ClientConn) Invoke(ctx context.Context, method string, args, reply any, opts ...grpc.CallOption) error {
	r, srv, err := cc.open(ctx, method, false)
	if err != nil {
		return err
	}
	c := cc.cl
	b, err := proto.Marshal(args.(proto.Message))
	if err != nil {
		return status.Error(codes.Internal, err.Error())
	}
	svcName, mName := splitMethod(method)
	r.startServer(srv, svcName, mName)
	if err := r.send(true, &Frame{Kind: "open", Type: typeName(args), B: b}); err != nil {
		return status.Error(codes.Unavailable, "transport is closing")
	}
	f, err := r.recv(false)
	c.mu.Lock()
	r.finished = true
	c.mu.Unlock()
	if err != nil {
		return err
	}
	if f.Err != "" {
		return status.Error(codes.Unknown, f.Err)
	}
	if err := proto.Unmarshal(f.B, reply.(proto.Message)); err != nil {
		return status.Error(codes.Internal, err.Error())
	}
	return nil
}

// startServer arranges for the handler to run once the first frame arrives.
//
//go:norace
func (r *RPC) startServer(srv *Server, svcName, mName string) {
	c := r.cl
	svc := srv.services[svcName]
	ctx, cancel := context.WithCancel(metadata.NewIncomingContext(context.Background(), r.md))
	c.mu.Lock()
	r.srvCtx, r.cancel = ctx, cancel
	c.mu.Unlock()
	c.S.Go("rpc:"+mName, func() {
		defer cancel()
		if svc == nil {
			r.send(false, &Frame{Kind: "trailer", Err: "unknown service " + svcName})
			return
		}
		if !r.Stream {
			f, err := r.recv(true)
			if err != nil {
				return
			}
			for _, md := range svc.desc.Methods {
				if md.MethodName != mName {
					continue
				}
				dec := func(v any) error { return proto.Unmarshal(f.B, v.(proto.Message)) }
				resp, err := md.Handler(svc.impl, ctx, dec, nil)
				if err != nil {
					r.send(false, &Frame{Kind: "resp", Err: status.Convert(err).Message()})
					return
				}
				b, _ := proto.Marshal(resp.(proto.Message))
				r.send(false, &Frame{Kind: "resp", Type: typeName(resp), B: b})
				return
			}
			r.send(false, &Frame{Kind: "resp", Err: "unknown method " + mName})
			return
		}
		// streams: the handler starts when the open frame arrives
		if _, err := r.recv(true); err != nil {
			return
		}
		for _, sd := range svc.desc.Streams {
			if sd.StreamName != mName {
				continue
			}
			err := sd.Handler(svc.impl, &serverStream{r: r, ctx: ctx})
			msg := ""
			if err != nil {
				msg = status.Convert(err).Message()
				if msg == "" {
					msg = err.Error()
				}
			}
			r.send(false, &Frame{Kind: "trailer", Err: msg})
			return
		}
		r.send(false, &Frame{Kind: "trailer", Err: "unknown stream " + mName})
	})
}

// NewStream implements grpc.ClientConnInterface.
//
//go:norace
func (cc *ClientConn) NewStream(ctx context.Context, desc *grpc.StreamDesc, method string, opts ...grpc.CallOption) (grpc.ClientStream, error) {
	r, srv, err := cc.open(ctx, method, true)
	if err != nil {
		return nil, err
	}
	svcName, mName := splitMethod(method)
	r.startServer(srv, svcName, mName)
	if err := r.send(true, &Frame{Kind: "open"}); err != nil {
		return nil, status.Error(codes.Unavailable, "transport is closing")
	}
	return &clientStream{r: r, ctx: ctx}, nil
}

type clientStream struct {
	r    *RPC
	ctx  context.Context
	done bool
	err  error
}

//go:norace
func (s *clientStream) Header() (metadata.MD, error) { return metadata.MD{}, nil }

//go:norace
func (s *clientStream) Trailer() metadata.MD { return metadata.MD{} }

//go:norace
func (s *clientStream) Context() context.Context { return s.ctx }

//go:norace
func (s *clientStream) CloseSend() error {
	s.r.send(true, &Frame{Kind: "close"})
	return nil
}

//go:norace
func (s *clientStream) SendMsg(m any) error {
	simrt.Yield()
	c := s.r.cl
	c.mu.Lock()
	fin := s.r.finished
	c.mu.Unlock()
	if fin {
		return io.EOF
	}
	b, err := proto.Marshal(m.(proto.Message))
	if err != nil {
		return status.Error(codes.Internal, err.Error())
	}
	return s.r.send(true, &Frame{Kind: "msg", Type: typeName(m), B: b})
}

//go:norace
func (s *clientStream) RecvMsg(m any) error {
	if s.done {
		return s.err
	}
	for {
		f, err := s.r.recv(false)
		if err != nil {
			s.finish(err)
			return err
		}
		switch f.Kind {
		case "msg":
			if err := proto.Unmarshal(f.B, m.(proto.Message)); err != nil {
				return status.Error(codes.Internal, err.Error())
			}
			return nil
		case "trailer":
			var e error = io.EOF
			if f.Err != "" {
				e = status.Error(codes.Unknown, f.Err)
			}
			s.finish(e)
			return e
		}
	}
}

//go:norace
func (s *clientStream) finish(err error) {
	s.done, s.err = true, err
	c := s.r.cl
	c.mu.Lock()
	s.r.finished = true
	c.mu.Unlock()
}

type serverStream struct {
	r   *RPC
	ctx context.Context
}

//go:norace
func (s *serverStream) SetHeader(metadata.MD) error { return nil }

//go:norace
func (s *serverStream) SendHeader(metadata.MD) error { return nil }

//go:norace
func (s *serverStream) SetTrailer(metadata.MD) {}

//go:norace
func (s *serverStream) Context() context.Context { return s.ctx }

//go:norace
func (s *serverStream) SendMsg(m any) error {
	simrt.Yield()
	b, err := proto.Marshal(m.(proto.Message))
	if err != nil {
		return status.Error(codes.Internal, err.Error())
	}
	if err := s.r.send(false, &Frame{Kind: "msg", Type: typeName(m), B: b}); err != nil {
		return status.Error(codes.Unavailable, "transport is closing")
	}
	return nil
}

//go:norace
func (s *serverStream) RecvMsg(m any) error {
	for {
		f, err := s.r.recv(true)
		if err != nil {
			return status.Error(codes.Canceled, "context canceled")
		}
		switch f.Kind {
		case "msg":
			if err := proto.Unmarshal(f.B, m.(proto.Message)); err != nil {
				return status.Error(codes.Internal, err.Error())
			}
			return nil
		case "close":
			return io.EOF
		}
	}
}
