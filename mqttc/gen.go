package mqttc

import "math/rand/v2"

// NoPublishSubIDs suppresses Subscription Identifiers in generated PUBLISH packets (a PUBLISH sent by a
// client must not carry them, and a decoder in broker role may reject them).
var NoPublishSubIDs = true

//go:norace
func rstr(r *rand.Rand, max int) string {
	n := r.IntN(max + 1)
	const al = "abcdefghijklmnopqrstuvwxyz0123456789/_-äé€"
	rs := []rune(al)
	out := make([]rune, n)
	for i := range out {
		out[i] = rs[r.IntN(len(rs))]
	}
	return string(out)
}

//go:norace
func rtopic(r *rand.Rand) string {
	s := rstr(r, 12)
	if s == "" {
		s = "t"
	}
	return s
}

//go:norace
func rbytes(r *rand.Rand, max int) []byte {
	n := r.IntN(max + 1)
	b := make([]byte, n)
	for i := range b {
		b[i] = byte(r.IntN(256))
	}
	return b
}

//go:norace
func maybe[T any](r *rand.Rand, p float64, f func() T) *T {
	if r.Float64() < p {
		v := f()
		return &v
	}
	return nil
}

//go:norace
func ruser(r *rand.Rand) [][2]string {
	var u [][2]string
	for i := 0; i < r.IntN(3); i++ {
		u = append(u, [2]string{rstr(r, 6), rstr(r, 6)})
	}
	return u
}

// RandomPacket returns a structurally valid packet of the given type for protocol level ver.
//
//go:norace
func RandomPacket(r *rand.Rand, typ byte, ver byte) *Packet {
	v5 := ver == V5
	p := &Packet{Type: typ}
	u8 := func() byte { return byte(r.IntN(256)) }
	u16 := func() uint16 { return uint16(r.IntN(65536)) }
	u32 := func() uint32 { return r.Uint32() }
	b01 := func() byte { return byte(r.IntN(2)) }
	str := func() string { return rstr(r, 10) }
	pid := func() uint16 { return uint16(1 + r.IntN(65535)) }
	switch typ {
	case CONNECT:
		p.Level = ver
		p.CleanStart = r.IntN(2) == 0
		p.KeepAlive = u16()
		p.ClientID = rstr(r, 20)
		if p.ClientID == "" && ver == V31 {
			p.ClientID = "c" // 3.1: 1..23 characters
		}
		if p.ClientID == "" && ver == V311 {
			p.CleanStart = true // [MQTT-3.1.3-7]
		}
		if r.IntN(2) == 0 {
			p.WillFlag = true
			p.WillQoS = byte(r.IntN(3))
			p.WillRetain = r.IntN(2) == 0
			p.WillTopic = rtopic(r)
			p.WillPayload = rbytes(r, 40)
			if v5 {
				p.WillProps = &Props{WillDelay: maybe(r, 0.5, u32), PayloadFormat: maybe(r, 0.3, b01), MessageExpiry: maybe(r, 0.4, u32), ContentType: maybe(r, 0.3, str),
					ResponseTopic: maybe(r, 0.3, func() string { return rtopic(r) }), User: ruser(r)}
				if r.IntN(3) == 0 {
					p.WillProps.CorrelationData = rbytes(r, 8)
					p.WillProps.HasCorrelationData = true
				}
			}
		}
		if r.IntN(2) == 0 {
			p.HasUser = true
			p.Username = rstr(r, 12)
			if r.IntN(2) == 0 {
				p.HasPass = true
				p.Password = rbytes(r, 16)
			}
		} else if ver == V5 && r.IntN(4) == 0 {
			p.HasPass = true // v5 allows a password without user name
			p.Password = rbytes(r, 16)
		}
		if v5 {
			p.Props = &Props{SessionExpiry: maybe(r, 0.5, u32), ReceiveMax: maybe(r, 0.4, func() uint16 { return uint16(1 + r.IntN(65535)) }), MaxPacketSize: maybe(r, 0.4, func() uint32 { return 1 + r.Uint32N(1<<28) }),
				TopicAliasMax: maybe(r, 0.4, u16), RequestResponseInfo: maybe(r, 0.3, b01), RequestProblemInfo: maybe(r, 0.3, b01), User: ruser(r), AuthMethod: maybe(r, 0.2, str)}
			if p.Props.AuthMethod != nil && r.IntN(2) == 0 {
				p.Props.AuthData = rbytes(r, 10)
				p.Props.HasAuthData = true
			}
		}
	case CONNACK:
		p.SessionPresent = r.IntN(2) == 0
		if v5 {
			p.Code = []byte{0, 0x80, 0x81, 0x82, 0x84, 0x85, 0x86, 0x87, 0x95, 0x9f}[r.IntN(10)]
			p.Props = &Props{SessionExpiry: maybe(r, 0.4, u32), ReceiveMax: maybe(r, 0.4, func() uint16 { return uint16(1 + r.IntN(65535)) }), MaxQoS: maybe(r, 0.4, b01), RetainAvailable: maybe(r, 0.4, b01),
				MaxPacketSize: maybe(r, 0.4, func() uint32 { return 1 + r.Uint32N(1<<28) }), AssignedClientID: maybe(r, 0.3, str), TopicAliasMax: maybe(r, 0.4, u16), ReasonString: maybe(r, 0.3, str), User: ruser(r),
				WildcardSubAvail: maybe(r, 0.4, b01), SubIDAvail: maybe(r, 0.4, b01), SharedSubAvail: maybe(r, 0.4, b01), ServerKeepAlive: maybe(r, 0.4, u16), ResponseInfo: maybe(r, 0.2, str), ServerReference: maybe(r, 0.2, str),
				AuthMethod: maybe(r, 0.2, str)}
		} else {
			p.Code = byte(r.IntN(6))
		}
		if p.Code != 0 {
			p.SessionPresent = false
		}
	case PUBLISH:
		p.QoS = byte(r.IntN(3))
		p.Retain = r.IntN(2) == 0
		p.Topic = rtopic(r)
		p.Payload = rbytes(r, []int{0, 5, 200, 3000}[r.IntN(4)])
		if r.IntN(250) == 0 {
			// beyond 64 KiB: decoders that read large bodies incrementally take another path
			p.Payload = make([]byte, 65537+r.IntN(140000))
			for i := range p.Payload {
				p.Payload[i] = 'a' + byte(i%26) // valid UTF-8 whatever the payload format indicator says
			}
		}
		if p.QoS > 0 {
			p.PID = pid()
			p.Dup = r.IntN(4) == 0
		}
		if v5 {
			p.Props = &Props{PayloadFormat: maybe(r, 0.3, b01), MessageExpiry: maybe(r, 0.4, u32), TopicAlias: maybe(r, 0.3, func() uint16 { return uint16(1 + r.IntN(65535)) }), ResponseTopic: maybe(r, 0.3, func() string { return rtopic(r) }),
				ContentType: maybe(r, 0.3, str), User: ruser(r)}
			if r.IntN(3) == 0 {
				p.Props.CorrelationData = rbytes(r, 8)
				p.Props.HasCorrelationData = true
			}
			if NoPublishSubIDs == false {
				for i := 0; i < r.IntN(3); i++ {
					p.Props.SubIDs = append(p.Props.SubIDs, 1+r.Uint32N(268435455))
				}
			}
		}
	case PUBACK, PUBREC, PUBREL, PUBCOMP:
		p.PID = pid()
		if v5 && r.IntN(2) == 0 {
			switch typ {
			case PUBACK, PUBREC:
				p.Code = []byte{0, 0x10, 0x80, 0x83, 0x87, 0x90, 0x91, 0x97, 0x99}[r.IntN(9)]
			default:
				p.Code = []byte{0, 0x92}[r.IntN(2)]
			}
			if r.IntN(2) == 0 {
				p.Props = &Props{ReasonString: maybe(r, 0.5, str), User: ruser(r)}
			}
		}
	case SUBSCRIBE:
		p.PID = pid()
		for i := 0; i < 1+r.IntN(3); i++ {
			s := Sub{Filter: rtopic(r), QoS: byte(r.IntN(3))}
			if v5 {
				s.NoLocal, s.RAP, s.RH = r.IntN(2) == 0, r.IntN(2) == 0, byte(r.IntN(3))
			}
			p.Subs = append(p.Subs, s)
		}
		if v5 {
			p.Props = &Props{User: ruser(r)}
			if r.IntN(2) == 0 {
				p.Props.SubIDs = []uint32{1 + r.Uint32N(268435455)}
			}
		}
	case SUBACK:
		p.PID = pid()
		for i := 0; i < 1+r.IntN(3); i++ {
			if v5 {
				p.Codes = append(p.Codes, []byte{0, 1, 2, 0x80, 0x83, 0x87, 0x8f, 0x91, 0x97, 0x9e, 0xa1, 0xa2}[r.IntN(12)])
			} else {
				p.Codes = append(p.Codes, []byte{0, 1, 2, 0x80}[r.IntN(4)])
			}
		}
		if v5 {
			p.Props = &Props{ReasonString: maybe(r, 0.3, str), User: ruser(r)}
		}
	case UNSUBSCRIBE:
		p.PID = pid()
		for i := 0; i < 1+r.IntN(3); i++ {
			p.Filters = append(p.Filters, rtopic(r))
		}
		if v5 {
			p.Props = &Props{User: ruser(r)}
		}
	case UNSUBACK:
		p.PID = pid()
		if v5 {
			for i := 0; i < 1+r.IntN(3); i++ {
				p.Codes = append(p.Codes, []byte{0, 0x11, 0x80, 0x83, 0x87, 0x8f, 0x91}[r.IntN(7)])
			}
			p.Props = &Props{ReasonString: maybe(r, 0.3, str), User: ruser(r)}
		}
	case PINGREQ, PINGRESP:
	case DISCONNECT:
		if v5 && r.IntN(2) == 0 {
			p.Code = []byte{0, 4, 0x80, 0x81, 0x82, 0x8d, 0x8e, 0x93, 0x94, 0x95, 0x98}[r.IntN(11)]
			if r.IntN(2) == 0 {
				p.Props = &Props{SessionExpiry: maybe(r, 0.4, u32), ReasonString: maybe(r, 0.4, str), User: ruser(r), ServerReference: maybe(r, 0.2, str)}
			}
		}
	case AUTH:
		if r.IntN(4) != 0 {
			p.Code = []byte{0, 0x18, 0x19}[r.IntN(3)]
			m := str() // an AUTH packet with a reason code always names its method
			p.Props = &Props{AuthMethod: &m, ReasonString: maybe(r, 0.3, str), User: ruser(r)}
			if r.IntN(2) == 0 {
				p.Props.AuthData = rbytes(r, 10)
				p.Props.HasAuthData = true
			}
		}
	}
	_ = u8
	return p
}
