// Package mqttc is an MQTT 3.1 / 3.1.1 / 5.0 codec written from the OASIS specifications for the
// simulator. It shares no code with gmqtt's pkg/packets: everything the oracles know about the
// wire comes from here.
package mqttc

import (
	"errors"
	"fmt"
	"unicode/utf8"
)

// Packet types.
const (
	CONNECT     = 1
	CONNACK     = 2
	PUBLISH     = 3
	PUBACK      = 4
	PUBREC      = 5
	PUBREL      = 6
	PUBCOMP     = 7
	SUBSCRIBE   = 8
	SUBACK      = 9
	UNSUBSCRIBE = 10
	UNSUBACK    = 11
	PINGREQ     = 12
	PINGRESP    = 13
	DISCONNECT  = 14
	AUTH        = 15
)

var typeNames = [...]string{"?", "CONNECT", "CONNACK", "PUBLISH", "PUBACK", "PUBREC", "PUBREL", "PUBCOMP", "SUBSCRIBE", "SUBACK", "UNSUBSCRIBE", "UNSUBACK", "PINGREQ", "PINGRESP", "DISCONNECT", "AUTH"}

// TypeName returns the name of a packet type.
//
//go:norace
func TypeName(t byte) string {
	if int(t) < len(typeNames) {
		return typeNames[t]
	}
	return "?"
}

// Protocol levels.
const (
	V31  = 3
	V311 = 4
	V5   = 5
)

// Sub is one topic filter of a SUBSCRIBE.
type Sub struct {
	Filter  string
	QoS     byte
	NoLocal bool
	RAP     bool
	RH      byte
}

// Props are the MQTT 5 properties. A nil pointer / nil slice means absent.
type Props struct {
	PayloadFormat       *byte
	MessageExpiry       *uint32
	ContentType         *string
	ResponseTopic       *string
	CorrelationData     []byte
	HasCorrelationData  bool
	SubIDs              []uint32
	SessionExpiry       *uint32
	AssignedClientID    *string
	ServerKeepAlive     *uint16
	AuthMethod          *string
	AuthData            []byte
	HasAuthData         bool
	RequestProblemInfo  *byte
	WillDelay           *uint32
	RequestResponseInfo *byte
	ResponseInfo        *string
	ServerReference     *string
	ReasonString        *string
	ReceiveMax          *uint16
	TopicAliasMax       *uint16
	TopicAlias          *uint16
	MaxQoS              *byte
	RetainAvailable     *byte
	User                [][2]string
	MaxPacketSize       *uint32
	WildcardSubAvail    *byte
	SubIDAvail          *byte
	SharedSubAvail      *byte
}

// Packet is a decoded (or to be encoded) MQTT control packet of any type.
type Packet struct {
	Type  byte
	Flags byte // fixed header flags as seen on the wire (decode only)

	// PUBLISH
	Dup     bool
	QoS     byte
	Retain  bool
	Topic   string
	PID     uint16 // also the packet identifier of acks, SUBSCRIBE, ...
	Payload []byte

	// CONNECT
	ProtoName   string
	Level       byte
	CleanStart  bool
	KeepAlive   uint16
	ClientID    string
	WillFlag    bool
	WillQoS     byte
	WillRetain  bool
	WillTopic   string
	WillPayload []byte
	WillProps   *Props
	HasUser     bool
	HasPass     bool
	Username    string
	Password    []byte

	// CONNACK
	SessionPresent bool
	// Reason / return code (CONNACK, PUBACK, PUBREC, PUBREL, PUBCOMP, DISCONNECT, AUTH)
	Code byte

	Subs    []Sub    // SUBSCRIBE
	Codes   []byte   // SUBACK, UNSUBACK
	Filters []string // UNSUBSCRIBE

	Props *Props

	Size int // total encoded size in bytes (decode only)
}

//go:norace
func (p *Packet) String() string {
	switch p.Type {
	case PUBLISH:
		return fmt.Sprintf("PUBLISH{%q q%d pid%d dup%v ret%v %dB}", p.Topic, p.QoS, p.PID, p.Dup, p.Retain, len(p.Payload))
	case CONNECT:
		return fmt.Sprintf("CONNECT{%q v%d clean%v}", p.ClientID, p.Level, p.CleanStart)
	case CONNACK:
		return fmt.Sprintf("CONNACK{sp%v code%#x}", p.SessionPresent, p.Code)
	case SUBSCRIBE:
		return fmt.Sprintf("SUBSCRIBE{pid%d %v}", p.PID, p.Subs)
	case SUBACK, UNSUBACK:
		return fmt.Sprintf("%s{pid%d %v}", TypeName(p.Type), p.PID, p.Codes)
	case UNSUBSCRIBE:
		return fmt.Sprintf("UNSUBSCRIBE{pid%d %v}", p.PID, p.Filters)
	case PUBACK, PUBREC, PUBREL, PUBCOMP:
		return fmt.Sprintf("%s{pid%d code%#x}", TypeName(p.Type), p.PID, p.Code)
	case DISCONNECT, AUTH:
		return fmt.Sprintf("%s{code%#x}", TypeName(p.Type), p.Code)
	}
	return TypeName(p.Type)
}

// ---------------------------------------------------------------- encoding

type enc struct{ b []byte }

//go:norace
func (e *enc) u8(v byte) { e.b = append(e.b, v) }

//go:norace
func (e *enc) u16(v uint16) { e.b = append(e.b, byte(v>>8), byte(v)) }

//go:norace
func (e *enc) u32(v uint32) { e.b = append(e.b, byte(v>>24), byte(v>>16), byte(v>>8), byte(v)) }

//go:norace
func (e *enc) bin(v []byte) { e.u16(uint16(len(v))); e.b = append(e.b, v...) }

//go:norace
func (e *enc) str(v string) { e.u16(uint16(len(v))); e.b = append(e.b, v...) }

//go:norace
func (e *enc) vbi(v uint32) { e.b = AppendVBI(e.b, v) }

// AppendVBI appends the canonical variable byte integer encoding of v.
//
//go:norace
func AppendVBI(b []byte, v uint32) []byte {
	for {
		d := byte(v % 128)
		v /= 128
		if v > 0 {
			d |= 0x80
		}
		b = append(b, d)
		if v == 0 {
			return b
		}
	}
}

//go:norace
func (e *enc) props(p *Props) {
	var q enc
	if p != nil {
		if p.PayloadFormat != nil {
			q.u8(0x01)
			q.u8(*p.PayloadFormat)
		}
		if p.MessageExpiry != nil {
			q.u8(0x02)
			q.u32(*p.MessageExpiry)
		}
		if p.ContentType != nil {
			q.u8(0x03)
			q.str(*p.ContentType)
		}
		if p.ResponseTopic != nil {
			q.u8(0x08)
			q.str(*p.ResponseTopic)
		}
		if p.HasCorrelationData || p.CorrelationData != nil {
			q.u8(0x09)
			q.bin(p.CorrelationData)
		}
		for _, id := range p.SubIDs {
			q.u8(0x0B)
			q.vbi(id)
		}
		if p.SessionExpiry != nil {
			q.u8(0x11)
			q.u32(*p.SessionExpiry)
		}
		if p.AssignedClientID != nil {
			q.u8(0x12)
			q.str(*p.AssignedClientID)
		}
		if p.ServerKeepAlive != nil {
			q.u8(0x13)
			q.u16(*p.ServerKeepAlive)
		}
		if p.AuthMethod != nil {
			q.u8(0x15)
			q.str(*p.AuthMethod)
		}
		if p.HasAuthData || p.AuthData != nil {
			q.u8(0x16)
			q.bin(p.AuthData)
		}
		if p.RequestProblemInfo != nil {
			q.u8(0x17)
			q.u8(*p.RequestProblemInfo)
		}
		if p.WillDelay != nil {
			q.u8(0x18)
			q.u32(*p.WillDelay)
		}
		if p.RequestResponseInfo != nil {
			q.u8(0x19)
			q.u8(*p.RequestResponseInfo)
		}
		if p.ResponseInfo != nil {
			q.u8(0x1A)
			q.str(*p.ResponseInfo)
		}
		if p.ServerReference != nil {
			q.u8(0x1C)
			q.str(*p.ServerReference)
		}
		if p.ReasonString != nil {
			q.u8(0x1F)
			q.str(*p.ReasonString)
		}
		if p.ReceiveMax != nil {
			q.u8(0x21)
			q.u16(*p.ReceiveMax)
		}
		if p.TopicAliasMax != nil {
			q.u8(0x22)
			q.u16(*p.TopicAliasMax)
		}
		if p.TopicAlias != nil {
			q.u8(0x23)
			q.u16(*p.TopicAlias)
		}
		if p.MaxQoS != nil {
			q.u8(0x24)
			q.u8(*p.MaxQoS)
		}
		if p.RetainAvailable != nil {
			q.u8(0x25)
			q.u8(*p.RetainAvailable)
		}
		for _, kv := range p.User {
			q.u8(0x26)
			q.str(kv[0])
			q.str(kv[1])
		}
		if p.MaxPacketSize != nil {
			q.u8(0x27)
			q.u32(*p.MaxPacketSize)
		}
		if p.WildcardSubAvail != nil {
			q.u8(0x28)
			q.u8(*p.WildcardSubAvail)
		}
		if p.SubIDAvail != nil {
			q.u8(0x29)
			q.u8(*p.SubIDAvail)
		}
		if p.SharedSubAvail != nil {
			q.u8(0x2A)
			q.u8(*p.SharedSubAvail)
		}
	}
	e.vbi(uint32(len(q.b)))
	e.b = append(e.b, q.b...)
}

// Encode returns the wire bytes of p for protocol level ver (3, 4 or 5). It does not validate:
// the simulator may deliberately produce packets a conforming sender would not.
//
//go:norace
func Encode(p *Packet, ver byte) []byte {
	var v enc // variable header + payload
	flags := byte(0)
	v5 := ver == V5
	switch p.Type {
	case CONNECT:
		name := p.ProtoName
		if name == "" {
			if ver == V31 {
				name = "MQIsdp"
			} else {
				name = "MQTT"
			}
		}
		lvl := p.Level
		if lvl == 0 {
			lvl = ver
		}
		v.str(name)
		v.u8(lvl)
		var cf byte
		if p.CleanStart {
			cf |= 0x02
		}
		if p.WillFlag {
			cf |= 0x04 | p.WillQoS<<3
			if p.WillRetain {
				cf |= 0x20
			}
		}
		if p.HasPass {
			cf |= 0x40
		}
		if p.HasUser {
			cf |= 0x80
		}
		v.u8(cf)
		v.u16(p.KeepAlive)
		if v5 {
			v.props(p.Props)
		}
		v.str(p.ClientID)
		if p.WillFlag {
			if v5 {
				v.props(p.WillProps)
			}
			v.str(p.WillTopic)
			v.bin(p.WillPayload)
		}
		if p.HasUser {
			v.str(p.Username)
		}
		if p.HasPass {
			v.bin(p.Password)
		}
	case CONNACK:
		if p.SessionPresent {
			v.u8(1)
		} else {
			v.u8(0)
		}
		v.u8(p.Code)
		if v5 {
			v.props(p.Props)
		}
	case PUBLISH:
		flags = p.QoS << 1
		if p.Dup {
			flags |= 8
		}
		if p.Retain {
			flags |= 1
		}
		v.str(p.Topic)
		if p.QoS > 0 {
			v.u16(p.PID)
		}
		if v5 {
			v.props(p.Props)
		}
		v.b = append(v.b, p.Payload...)
	case PUBACK, PUBREC, PUBREL, PUBCOMP:
		if p.Type == PUBREL {
			flags = 2
		}
		v.u16(p.PID)
		if v5 && (p.Code != 0 || p.Props != nil) {
			v.u8(p.Code)
			if p.Props != nil {
				v.props(p.Props)
			}
		}
	case SUBSCRIBE:
		flags = 2
		v.u16(p.PID)
		if v5 {
			v.props(p.Props)
		}
		for _, s := range p.Subs {
			v.str(s.Filter)
			o := s.QoS
			if v5 {
				if s.NoLocal {
					o |= 4
				}
				if s.RAP {
					o |= 8
				}
				o |= s.RH << 4
			}
			v.u8(o)
		}
	case SUBACK:
		v.u16(p.PID)
		if v5 {
			v.props(p.Props)
		}
		v.b = append(v.b, p.Codes...)
	case UNSUBSCRIBE:
		flags = 2
		v.u16(p.PID)
		if v5 {
			v.props(p.Props)
		}
		for _, f := range p.Filters {
			v.str(f)
		}
	case UNSUBACK:
		v.u16(p.PID)
		if v5 {
			v.props(p.Props)
			v.b = append(v.b, p.Codes...)
		}
	case PINGREQ, PINGRESP:
	case DISCONNECT:
		if v5 && (p.Code != 0 || p.Props != nil) {
			v.u8(p.Code)
			if p.Props != nil {
				v.props(p.Props)
			}
		}
	case AUTH:
		if p.Code != 0 || p.Props != nil {
			v.u8(p.Code)
			v.props(p.Props)
		}
	}
	out := []byte{p.Type<<4 | flags}
	out = AppendVBI(out, uint32(len(v.b)))
	return append(out, v.b...)
}

// ---------------------------------------------------------------- decoding

// ErrShort means more bytes are needed.
var ErrShort = errors.New("mqttc: need more bytes")

type dec struct {
	b   []byte
	pos int
	err error
}

//go:norace
func (d *dec) fail(f string, a ...any) {
	if d.err == nil {
		d.err = fmt.Errorf("mqttc: "+f, a...)
	}
}

//go:norace
func (d *dec) left() int { return len(d.b) - d.pos }

//go:norace
func (d *dec) u8() byte {
	if d.err != nil || d.left() < 1 {
		d.fail("truncated")
		return 0
	}
	v := d.b[d.pos]
	d.pos++
	return v
}

//go:norace
func (d *dec) u16() uint16 {
	if d.err != nil || d.left() < 2 {
		d.fail("truncated")
		return 0
	}
	v := uint16(d.b[d.pos])<<8 | uint16(d.b[d.pos+1])
	d.pos += 2
	return v
}

//go:norace
func (d *dec) u32() uint32 {
	if d.err != nil || d.left() < 4 {
		d.fail("truncated")
		return 0
	}
	v := uint32(d.b[d.pos])<<24 | uint32(d.b[d.pos+1])<<16 | uint32(d.b[d.pos+2])<<8 | uint32(d.b[d.pos+3])
	d.pos += 4
	return v
}

//go:norace
func (d *dec) bin() []byte {
	n := int(d.u16())
	if d.err != nil || d.left() < n {
		d.fail("truncated")
		return nil
	}
	v := append([]byte{}, d.b[d.pos:d.pos+n]...)
	d.pos += n
	return v
}

// ValidUTF8 reports whether b is a well-formed MQTT UTF-8 string (1.5.4): valid UTF-8, no U+0000,
// no surrogates (rejected by utf8.Valid already).
//
//go:norace
func ValidUTF8(b []byte) bool {
	if !utf8.Valid(b) {
		return false
	}
	for _, c := range b {
		if c == 0 {
			return false
		}
	}
	return true
}

//go:norace
func (d *dec) str() string {
	b := d.bin()
	if d.err == nil && !ValidUTF8(b) {
		d.fail("invalid utf-8 string")
	}
	return string(b)
}

//go:norace
func (d *dec) vbi() uint32 {
	var v uint32
	var mul uint32 = 1
	for i := 0; i < 4; i++ {
		c := d.u8()
		if d.err != nil {
			return 0
		}
		v += uint32(c&0x7f) * mul
		if c&0x80 == 0 {
			if i > 0 && c == 0 {
				d.fail("non-canonical variable byte integer")
			}
			return v
		}
		mul *= 128
	}
	d.fail("variable byte integer too long")
	return 0
}

//go:norace
func bp(v byte) *byte { return &v }

//go:norace
func u16p(v uint16) *uint16 { return &v }

//go:norace
func u32p(v uint32) *uint32 { return &v }

//go:norace
func sp(v string) *string { return &v }

// which properties are allowed in which packet (MQTT 5, table 2-4); index = property id
var propAllowed = map[byte][]byte{
	0x01: {PUBLISH, 0xFF},
	0x02: {PUBLISH, 0xFF},
	0x03: {PUBLISH, 0xFF},
	0x08: {PUBLISH, 0xFF},
	0x09: {PUBLISH, 0xFF},
	0x0B: {PUBLISH, SUBSCRIBE},
	0x11: {CONNECT, CONNACK, DISCONNECT},
	0x12: {CONNACK},
	0x13: {CONNACK},
	0x15: {CONNECT, CONNACK, AUTH},
	0x16: {CONNECT, CONNACK, AUTH},
	0x17: {CONNECT},
	0x18: {0xFF},
	0x19: {CONNECT},
	0x1A: {CONNACK},
	0x1C: {CONNACK, DISCONNECT},
	0x1F: {CONNACK, PUBACK, PUBREC, PUBREL, PUBCOMP, SUBACK, UNSUBACK, DISCONNECT, AUTH},
	0x21: {CONNECT, CONNACK},
	0x22: {CONNECT, CONNACK},
	0x23: {PUBLISH},
	0x24: {CONNACK},
	0x25: {CONNACK},
	0x26: {CONNECT, CONNACK, PUBLISH, 0xFF, PUBACK, PUBREC, PUBREL, PUBCOMP, SUBSCRIBE, SUBACK, UNSUBSCRIBE, UNSUBACK, DISCONNECT, AUTH},
	0x27: {CONNECT, CONNACK},
	0x28: {CONNACK},
	0x29: {CONNACK},
	0x2A: {CONNACK},
}

// props decodes a property block for packet type pt (0xFF = will properties).
//
//go:norace
func (d *dec) props(pt byte) *Props {
	n := int(d.vbi())
	if d.err != nil {
		return nil
	}
	if d.left() < n {
		d.fail("property length exceeds packet")
		return nil
	}
	p := &Props{}
	sub := &dec{b: d.b[d.pos : d.pos+n]}
	d.pos += n
	seen := map[byte]bool{}
	for sub.left() > 0 && sub.err == nil {
		id := sub.u8()
		al, known := propAllowed[id]
		if !known {
			sub.fail("unknown property %#x", id)
			break
		}
		ok := false
		for _, a := range al {
			if a == pt {
				ok = true
			}
		}
		if !ok {
			sub.fail("property %#x not allowed in %s", id, TypeName(pt))
			break
		}
		if seen[id] && id != 0x26 && !(id == 0x0B && pt == PUBLISH) {
			sub.fail("duplicate property %#x", id)
			break
		}
		seen[id] = true
		switch id {
		case 0x01:
			p.PayloadFormat = bp(sub.u8())
		case 0x02:
			p.MessageExpiry = u32p(sub.u32())
		case 0x03:
			p.ContentType = sp(sub.str())
		case 0x08:
			p.ResponseTopic = sp(sub.str())
		case 0x09:
			p.CorrelationData = sub.bin()
			p.HasCorrelationData = true
		case 0x0B:
			v := sub.vbi()
			if v == 0 {
				sub.fail("subscription identifier 0")
			}
			p.SubIDs = append(p.SubIDs, v)
		case 0x11:
			p.SessionExpiry = u32p(sub.u32())
		case 0x12:
			p.AssignedClientID = sp(sub.str())
		case 0x13:
			p.ServerKeepAlive = u16p(sub.u16())
		case 0x15:
			p.AuthMethod = sp(sub.str())
		case 0x16:
			p.AuthData = sub.bin()
			p.HasAuthData = true
		case 0x17:
			p.RequestProblemInfo = bp(sub.u8())
		case 0x18:
			p.WillDelay = u32p(sub.u32())
		case 0x19:
			p.RequestResponseInfo = bp(sub.u8())
		case 0x1A:
			p.ResponseInfo = sp(sub.str())
		case 0x1C:
			p.ServerReference = sp(sub.str())
		case 0x1F:
			p.ReasonString = sp(sub.str())
		case 0x21:
			p.ReceiveMax = u16p(sub.u16())
		case 0x22:
			p.TopicAliasMax = u16p(sub.u16())
		case 0x23:
			p.TopicAlias = u16p(sub.u16())
		case 0x24:
			p.MaxQoS = bp(sub.u8())
		case 0x25:
			p.RetainAvailable = bp(sub.u8())
		case 0x26:
			k := sub.str()
			v := sub.str()
			p.User = append(p.User, [2]string{k, v})
		case 0x27:
			p.MaxPacketSize = u32p(sub.u32())
		case 0x28:
			p.WildcardSubAvail = bp(sub.u8())
		case 0x29:
			p.SubIDAvail = bp(sub.u8())
		case 0x2A:
			p.SharedSubAvail = bp(sub.u8())
		}
	}
	if sub.err != nil {
		d.fail("%v", sub.err)
	}
	return p
}

// Decode decodes one packet from the front of b for protocol level ver (for CONNECT the level in
// the packet decides). It returns the packet and the number of bytes consumed; ErrShort when b does
// not yet hold a complete packet.
//
//go:norace
func Decode(b []byte, ver byte) (*Packet, int, error) {
	if len(b) < 2 {
		return nil, 0, ErrShort
	}
	// remaining length
	var rl, mul uint32 = 0, 1
	i := 1
	for {
		if i >= len(b) {
			if i > 4 {
				return nil, 0, errors.New("mqttc: remaining length too long")
			}
			return nil, 0, ErrShort
		}
		c := b[i]
		rl += uint32(c&0x7f) * mul
		i++
		if c&0x80 == 0 {
			break
		}
		mul *= 128
		if i > 4 {
			return nil, 0, errors.New("mqttc: remaining length too long")
		}
	}
	total := i + int(rl)
	if len(b) < total {
		return nil, 0, ErrShort
	}
	p := &Packet{Type: b[0] >> 4, Flags: b[0] & 0x0f, Size: total}
	d := &dec{b: b[i:total]}
	v5 := ver == V5
	switch p.Type {
	case CONNECT:
		if p.Flags != 0 {
			d.fail("CONNECT flags")
		}
		p.ProtoName = d.str()
		p.Level = d.u8()
		v5 = p.Level == V5
		cf := d.u8()
		if cf&1 != 0 {
			d.fail("CONNECT reserved flag")
		}
		p.CleanStart = cf&2 != 0
		p.WillFlag = cf&4 != 0
		p.WillQoS = cf >> 3 & 3
		p.WillRetain = cf&0x20 != 0
		p.HasPass = cf&0x40 != 0
		p.HasUser = cf&0x80 != 0
		p.KeepAlive = d.u16()
		if v5 {
			p.Props = d.props(CONNECT)
		}
		p.ClientID = d.str()
		if p.WillFlag {
			if v5 {
				p.WillProps = d.props(0xFF)
			}
			p.WillTopic = d.str()
			p.WillPayload = d.bin()
		}
		if p.HasUser {
			p.Username = d.str()
		}
		if p.HasPass {
			p.Password = d.bin()
		}
	case CONNACK:
		if p.Flags != 0 {
			d.fail("CONNACK flags")
		}
		a := d.u8()
		if a > 1 {
			d.fail("CONNACK acknowledge flags %#x", a)
		}
		p.SessionPresent = a == 1
		p.Code = d.u8()
		if v5 {
			p.Props = d.props(CONNACK)
		}
	case PUBLISH:
		p.Dup = p.Flags&8 != 0
		p.QoS = p.Flags >> 1 & 3
		p.Retain = p.Flags&1 != 0
		if p.QoS == 3 {
			d.fail("PUBLISH QoS 3")
		}
		p.Topic = d.str()
		if p.QoS > 0 {
			p.PID = d.u16()
			if p.PID == 0 && d.err == nil {
				d.fail("PUBLISH packet identifier 0")
			}
		}
		if v5 {
			p.Props = d.props(PUBLISH)
		}
		if d.err == nil {
			p.Payload = append([]byte{}, d.b[d.pos:]...)
			d.pos = len(d.b)
		}
	case PUBACK, PUBREC, PUBREL, PUBCOMP:
		want := byte(0)
		if p.Type == PUBREL {
			want = 2
		}
		if p.Flags != want {
			d.fail("%s flags %#x", TypeName(p.Type), p.Flags)
		}
		p.PID = d.u16()
		if v5 && d.left() > 0 {
			p.Code = d.u8()
			if d.left() > 0 {
				p.Props = d.props(p.Type)
			}
		}
	case SUBSCRIBE:
		if p.Flags != 2 {
			d.fail("SUBSCRIBE flags")
		}
		p.PID = d.u16()
		if v5 {
			p.Props = d.props(SUBSCRIBE)
		}
		for d.left() > 0 && d.err == nil {
			f := d.str()
			o := d.u8()
			s := Sub{Filter: f, QoS: o & 3}
			if v5 {
				s.NoLocal = o&4 != 0
				s.RAP = o&8 != 0
				s.RH = o >> 4 & 3
				if o&0xC0 != 0 {
					d.fail("SUBSCRIBE reserved option bits")
				}
			} else if o&0xFC != 0 {
				d.fail("SUBSCRIBE reserved option bits")
			}
			p.Subs = append(p.Subs, s)
		}
		if len(p.Subs) == 0 {
			d.fail("SUBSCRIBE without topic filter")
		}
	case SUBACK:
		if p.Flags != 0 {
			d.fail("SUBACK flags")
		}
		p.PID = d.u16()
		if v5 {
			p.Props = d.props(SUBACK)
		}
		if d.err == nil {
			p.Codes = append([]byte{}, d.b[d.pos:]...)
			d.pos = len(d.b)
		}
	case UNSUBSCRIBE:
		if p.Flags != 2 {
			d.fail("UNSUBSCRIBE flags")
		}
		p.PID = d.u16()
		if v5 {
			p.Props = d.props(UNSUBSCRIBE)
		}
		for d.left() > 0 && d.err == nil {
			p.Filters = append(p.Filters, d.str())
		}
		if len(p.Filters) == 0 {
			d.fail("UNSUBSCRIBE without topic filter")
		}
	case UNSUBACK:
		if p.Flags != 0 {
			d.fail("UNSUBACK flags")
		}
		p.PID = d.u16()
		if v5 {
			p.Props = d.props(UNSUBACK)
			if d.err == nil {
				p.Codes = append([]byte{}, d.b[d.pos:]...)
				d.pos = len(d.b)
			}
		}
	case PINGREQ, PINGRESP:
		if p.Flags != 0 {
			d.fail("PING flags")
		}
	case DISCONNECT:
		if p.Flags != 0 {
			d.fail("DISCONNECT flags")
		}
		if v5 && d.left() > 0 {
			p.Code = d.u8()
			if d.left() > 0 {
				p.Props = d.props(DISCONNECT)
			}
		}
	case AUTH:
		if p.Flags != 0 {
			d.fail("AUTH flags")
		}
		if !v5 {
			d.fail("AUTH in MQTT 3")
		}
		if d.left() > 0 {
			p.Code = d.u8()
			if d.left() > 0 {
				p.Props = d.props(AUTH)
			}
		}
	default:
		d.fail("reserved packet type %d", p.Type)
	}
	if d.err == nil && d.left() != 0 {
		d.fail("%s: %d trailing bytes inside the packet", TypeName(p.Type), d.left())
	}
	if d.err != nil {
		return nil, total, d.err
	}
	return p, total, nil
}

// Parser reassembles packets from a byte stream.
type Parser struct {
	Ver byte
	buf []byte
}

// Feed appends bytes and returns the complete packets now available. After an error the stream is
// unusable (the error is returned again on every call).
//
//go:norace
func (ps *Parser) Feed(b []byte) ([]*Packet, error) {
	ps.buf = append(ps.buf, b...)
	var out []*Packet
	for {
		p, n, err := Decode(ps.buf, ps.Ver)
		if err == ErrShort {
			return out, nil
		}
		if err != nil {
			return out, err
		}
		if p.Type == CONNECT {
			ps.Ver = p.Level
		}
		ps.buf = ps.buf[n:]
		out = append(out, p)
	}
}

// Pending returns the number of buffered bytes that do not yet form a packet.
//
//go:norace
func (ps *Parser) Pending() int { return len(ps.buf) }
