package simnet

import (
	"context"
	"fmt"
	"net/http"
	"sync"
)

var (
	regMu sync.Mutex
	reg   = map[string]*Listener{}
)

// Register makes l the listener that "listening on addr" resolves to (R6 call sites).
//
//go:norace
func Register(addr string, l *Listener) {
	regMu.Lock()
	reg[addr] = l
	regMu.Unlock()
}

// Unregister removes all registered listeners (end of run).
//
//go:norace
func Unregister() {
	regMu.Lock()
	reg = map[string]*Listener{}
	regMu.Unlock()
}

// Lookup returns the listener registered for addr.
//
//go:norace
func Lookup(addr string) *Listener {
	regMu.Lock()
	defer regMu.Unlock()
	return reg[addr]
}

// HTTPListenAndServe replaces (*http.Server).ListenAndServe: the same server, with the handler the
// broker installed, is served on the in-memory listener registered under srv.Addr.
//
//go:norace
func HTTPListenAndServe(srv *http.Server) error {
	l := Lookup(srv.Addr)
	if l == nil {
		return fmt.Errorf("simnet: no listener registered for %q", srv.Addr)
	}
	return srv.Serve(l)
}

// HTTPListenAndServeTLS: TLS is not modelled; served in clear on the simulated listener.
//
//go:norace
func HTTPListenAndServeTLS(srv *http.Server, cert, key string) error {
	return HTTPListenAndServe(srv)
}

// HTTPShutdown replaces (*http.Server).Shutdown.
//
//go:norace
func HTTPShutdown(srv *http.Server, ctx context.Context) error {
	return srv.Shutdown(ctx)
}
