package simnet

import (
	"context"
	"fmt"
	"net/http"
	"sync"
)

var (
	regMu sync.Mutex
	reg   = map[string]*Listener{}
)

// Register makes l the listener that "listening on addr" resolves to (R6 call sites).
func Register(addr string, l *Listener) {
	regMu.Lock()
	reg[addr] = l
	regMu.Unlock()
}

// Unregister removes all registered listeners (end of run).
func Unregister() {
	regMu.Lock()
	reg = map[string]*Listener{}
	regMu.Unlock()
}

// Lookup returns the listener registered for addr.
func Lookup(addr string) *Listener {
	regMu.Lock()
	defer regMu.Unlock()
	return reg[addr]
}

// HTTPListenAndServe replaces (*http.Server).ListenAndServe: the same server, with the handler the
// broker installed, is served on the in-memory listener registered under srv.Addr.
func HTTPListenAndServe(srv *http.Server) error {
	l := Lookup(srv.Addr)
	if l == nil {
		return fmt.Errorf("simnet: no listener registered for %q", srv.Addr)
	}
	return srv.Serve(l)
}

// HTTPListenAndServeTLS: TLS is not modelled; served in clear on the simulated listener.
func HTTPListenAndServeTLS(srv *http.Server, cert, key string) error {
	return HTTPListenAndServe(srv)
}

// HTTPShutdown replaces (*http.Server).Shutdown.
func HTTPShutdown(srv *http.Server, ctx context.Context) error {
	return srv.Shutdown(ctx)
}
