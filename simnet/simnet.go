// Package simnet is the simulated network: in-memory listeners and connections whose peer is the
// simulator. Every Read/Write/Close/Accept of the broker side is a scheduling point.
package simnet

import (
	"io"
	"net"
	"os"
	"sync"
	"syscall"
	"time"
	"unsafe"

	"verifsim/simrt"
)

// Addr is a simulated address.
type Addr string

//go:norace
func (a Addr) Network() string { return "sim" }

//go:norace
func (a Addr) String() string { return string(a) }

// Conn is the broker-side endpoint of a simulated connection.
type Conn struct {
	S    *simrt.Sched
	Name string
	ID   int

	mu       sync.Mutex // real, held briefly, never across a scheduling point
	in       []byte
	out      []byte
	closed   bool // closed by the broker side
	eof      bool // peer performed an orderly close
	rst      bool // peer reset the connection
	rdl      time.Time
	timer    *time.Timer
	rwaiters []*simrt.Task
	wwaiters []*simrt.Task
	outCap   int // 0 = unbounded
	stalled  bool

	// OnWrite is called (in the writing task's context, lock not held) for every successful Write.
	OnWrite func(c *Conn, p []byte)
	// OnClose is called once when the broker side closes the connection.
	OnClose func(c *Conn)

	BytesIn  int64 // consumed by the broker
	BytesOut int64 // written by the broker

	segs      []Seg
	CloseStep int // scheduler step at which the broker side closed
}

// Seg is one Write of the broker side, stamped with the scheduler step and simulated time.
type Seg struct {
	B    []byte
	Step int
	At   time.Time
}

// NewConn creates a connection.
//
//go:norace
func NewConn(s *simrt.Sched, id int, name string) *Conn {
	return &Conn{S: s, ID: id, Name: name}
}

//go:norace
func (c *Conn) wakeReadersLocked() []*simrt.Task {
	w := c.rwaiters
	c.rwaiters = nil
	return w
}

//go:norace
func (c *Conn) wakeWritersLocked() []*simrt.Task {
	w := c.wwaiters
	c.wwaiters = nil
	return w
}

type timeoutErr struct{}

//go:norace
func (timeoutErr) Error() string { return "i/o timeout" }

//go:norace
func (timeoutErr) Timeout() bool { return true }

//go:norace
func (timeoutErr) Temporary() bool { return true }

//go:norace
func (timeoutErr) Is(err error) bool {
	return err == os.ErrDeadlineExceeded
}

// Read implements net.Conn.
//
//go:norace
func (c *Conn) Read(p []byte) (int, error) {
	if c.S == nil || c.S.Poisoned() {
		return 0, net.ErrClosed
	}
	simrt.Yield()
	t := c.S.Cur()
	for {
		c.mu.Lock()
		if c.closed {
			c.mu.Unlock()
			return 0, net.ErrClosed
		}
		if c.rst {
			c.mu.Unlock()
			return 0, &net.OpError{Op: "read", Net: "sim", Err: syscall.ECONNRESET}
		}
		if len(c.in) > 0 {
			n := copy(p, c.in)
			c.in = c.in[n:]
			c.BytesIn += int64(n)
			c.mu.Unlock()
			return n, nil
		}
		if c.eof {
			c.mu.Unlock()
			return 0, io.EOF
		}
		if !c.rdl.IsZero() && !time.Now().Before(c.rdl) {
			c.mu.Unlock()
			return 0, &net.OpError{Op: "read", Net: "sim", Err: timeoutErr{}}
		}
		c.rwaiters = append(c.rwaiters, t)
		c.mu.Unlock()
		c.S.Block(t, "conn.Read "+c.Name)
	}
}

// Write implements net.Conn.
//
//go:norace
func (c *Conn) Write(p []byte) (int, error) {
	if c.S == nil || c.S.Poisoned() {
		return 0, net.ErrClosed
	}
	simrt.Yield()
	t := c.S.Cur()
	for {
		c.mu.Lock()
		if c.closed {
			c.mu.Unlock()
			return 0, net.ErrClosed
		}
		if c.rst {
			c.mu.Unlock()
			return 0, &net.OpError{Op: "write", Net: "sim", Err: syscall.EPIPE}
		}
		if c.outCap > 0 && len(c.out) >= c.outCap {
			c.wwaiters = append(c.wwaiters, t)
			c.mu.Unlock()
			c.S.Block(t, "conn.Write "+c.Name)
			continue
		}
		c.out = append(c.out, p...)
		c.segs = append(c.segs, Seg{B: append([]byte{}, p...), Step: c.S.StepCnt, At: time.Now()})
		c.BytesOut += int64(len(p))
		cb := c.OnWrite
		c.mu.Unlock()
		if cb != nil {
			cb(c, p)
		}
		return len(p), nil
	}
}

// Close implements net.Conn (broker side close).
//
//go:norace
func (c *Conn) Close() error {
	c.mu.Lock()
	if c.closed {
		c.mu.Unlock()
		return nil
	}
	c.closed = true
	if c.S != nil {
		c.CloseStep = c.S.StepCnt
	}
	if c.timer != nil {
		c.timer.Stop()
	}
	w := append(c.wakeReadersLocked(), c.wakeWritersLocked()...)
	cb := c.OnClose
	c.mu.Unlock()
	if c.S != nil {
		c.S.MakeRunnable(w...)
	}
	if cb != nil {
		cb(c)
	}
	return nil
}

//go:norace
func (c *Conn) LocalAddr() net.Addr { return Addr("broker") }

//go:norace
func (c *Conn) RemoteAddr() net.Addr { return Addr(c.Name) }

//go:norace
func (c *Conn) SetDeadline(t time.Time) error { return c.SetReadDeadline(t) }

// SetReadDeadline implements net.Conn on the simulated clock.
//
//go:norace
func (c *Conn) SetReadDeadline(t time.Time) error {
	c.mu.Lock()
	c.rdl = t
	if c.timer != nil {
		c.timer.Stop()
		c.timer = nil
	}
	var w []*simrt.Task
	if !t.IsZero() {
		if d := time.Until(t); d <= 0 {
			w = c.wakeReadersLocked()
		} else if !c.closed && c.S != nil && !c.S.Poisoned() {
			c.timer = time.AfterFunc(d, func() {
				c.mu.Lock()
				w := c.wakeReadersLocked()
				c.mu.Unlock()
				c.S.MakeRunnable(w...)
			})
		}
	}
	c.mu.Unlock()
	if c.S != nil {
		c.S.MakeRunnable(w...)
	}
	return nil
}

//go:norace
func (c *Conn) SetWriteDeadline(t time.Time) error { return nil }

// ---- simulator side ----

// Deliver hands bytes from the peer to the broker side.
//
//go:norace
func (c *Conn) Deliver(b []byte) {
	c.mu.Lock()
	c.in = append(c.in, b...)
	w := c.wakeReadersLocked()
	c.mu.Unlock()
	c.S.MakeRunnable(w...)
}

// PeerClose is an orderly close by the peer (FIN): pending input is still readable, then EOF.
//
//go:norace
func (c *Conn) PeerClose() {
	c.mu.Lock()
	c.eof = true
	w := c.wakeReadersLocked()
	c.mu.Unlock()
	c.S.MakeRunnable(w...)
}

// PeerReset is an abortive close by the peer (RST): unread input is lost, reads and writes fail.
//
//go:norace
func (c *Conn) PeerReset() {
	c.mu.Lock()
	c.rst = true
	c.in = nil
	w := append(c.wakeReadersLocked(), c.wakeWritersLocked()...)
	c.mu.Unlock()
	c.S.MakeRunnable(w...)
}

// Take returns and removes what the broker has written since the last call (unless stalled).
//
//go:norace
func (c *Conn) Take() []byte {
	c.mu.Lock()
	if c.stalled || len(c.out) == 0 {
		c.mu.Unlock()
		return nil
	}
	b := c.out
	c.out = nil
	w := c.wakeWritersLocked()
	c.mu.Unlock()
	c.S.MakeRunnable(w...)
	return b
}

// TakeSegs returns and removes the broker's writes since the last call (unless stalled).
//
//go:norace
func (c *Conn) TakeSegs() []Seg {
	c.mu.Lock()
	if c.stalled || len(c.segs) == 0 {
		c.mu.Unlock()
		return nil
	}
	sg := c.segs
	c.segs = nil
	c.out = nil
	w := c.wakeWritersLocked()
	c.mu.Unlock()
	c.S.MakeRunnable(w...)
	return sg
}

// SetStall makes the peer stop reading; with a bounded buffer the broker's Write then blocks.
//
//go:norace
func (c *Conn) SetStall(on bool, capBytes int) {
	c.mu.Lock()
	c.stalled = on
	c.outCap = capBytes
	c.mu.Unlock()
}

// Closed reports whether the broker side has closed the connection.
//
//go:norace
func (c *Conn) Closed() bool {
	c.mu.Lock()
	defer c.mu.Unlock()
	return c.closed
}

// PendingIn returns the number of delivered bytes the broker has not read yet.
//
//go:norace
func (c *Conn) PendingIn() int {
	c.mu.Lock()
	defer c.mu.Unlock()
	return len(c.in)
}

// Listener is an in-memory net.Listener.
type Listener struct {
	S       *simrt.Sched
	Name    string
	HB      byte // race detector: released whenever the broker asks for a connection ("the server is serving")
	mu      sync.Mutex
	q       []net.Conn
	closed  bool
	waiters []*simrt.Task
}

// NewListener creates a listener.
//
//go:norace
func NewListener(s *simrt.Sched, name string) *Listener { return &Listener{S: s, Name: name} }

// Accept implements net.Listener.
//
//go:norace
func (l *Listener) Accept() (net.Conn, error) {
	if l.S.Poisoned() {
		return nil, net.ErrClosed
	}
	simrt.RaceRelease(unsafe.Pointer(&l.HB))
	simrt.Yield()
	t := l.S.Cur()
	for {
		l.mu.Lock()
		if l.closed {
			l.mu.Unlock()
			return nil, net.ErrClosed
		}
		if len(l.q) > 0 {
			c := l.q[0]
			l.q = l.q[1:]
			l.mu.Unlock()
			return c, nil
		}
		l.waiters = append(l.waiters, t)
		l.mu.Unlock()
		l.S.Block(t, "accept "+l.Name)
	}
}

// Close implements net.Listener.
//
//go:norace
func (l *Listener) Close() error {
	l.mu.Lock()
	l.closed = true
	w := l.waiters
	l.waiters = nil
	q := l.q
	l.q = nil
	l.mu.Unlock()
	l.S.MakeRunnable(w...)
	// connections still in the accept queue are reset, as a kernel does when the listening socket closes
	for _, c := range q {
		c.Close()
	}
	return nil
}

// Addr implements net.Listener.
//
//go:norace
func (l *Listener) Addr() net.Addr { return Addr(l.Name) }

// IsClosed reports whether Close was called.
//
//go:norace
func (l *Listener) IsClosed() bool {
	l.mu.Lock()
	defer l.mu.Unlock()
	return l.closed
}

// Push makes a new connection available to Accept. It returns false if the listener is closed.
//
//go:norace
func (l *Listener) Push(c net.Conn) bool {
	l.mu.Lock()
	if l.closed {
		l.mu.Unlock()
		return false
	}
	l.q = append(l.q, c)
	w := l.waiters
	l.waiters = nil
	l.mu.Unlock()
	l.S.MakeRunnable(w...)
	return true
}
